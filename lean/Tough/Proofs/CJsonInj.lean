import Tough.Proofs.CJsonCanon
namespace Tough.CJson

/-! ## The canonical form can be read back: byte-level lemmas

Everything needed to show that the canonical form of a value determines the value (up to string
normalisation, member order and the resolution of duplicate members, which is all `canon` forgets):
decimal digits, UTF-8, the two escapes, and the framing of strings, arrays and objects. -/

/-- two decompositions of one list into a `p`-prefix and a rest that does not start with a `p`
element coincide -/
theorem span_unique {p : Nat → Bool} (a b r1 r2 : Bytes)
    (ha : ∀ x ∈ a, p x = true) (hb : ∀ x ∈ b, p x = true)
    (h1 : ∀ x, r1.head? = some x → p x = false) (h2 : ∀ x, r2.head? = some x → p x = false)
    (h : a ++ r1 = b ++ r2) : a = b ∧ r1 = r2 := by
  induction a generalizing b with
  | nil =>
    cases b with
    | nil => exact ⟨rfl, by simpa using h⟩
    | cons y ys =>
      exfalso
      simp only [List.nil_append, List.cons_append] at h
      have := h1 y (by rw [h]; rfl)
      rw [hb y (List.mem_cons_self ..)] at this
      cases this
  | cons x xs ih =>
    cases b with
    | nil =>
      exfalso
      simp only [List.nil_append, List.cons_append] at h
      have := h2 x (by rw [← h]; rfl)
      rw [ha x (List.mem_cons_self ..)] at this
      cases this
    | cons y ys =>
      simp only [List.cons_append, List.cons.injEq] at h
      obtain ⟨hxy, hrest⟩ := h
      have := ih ys (fun z hz => ha z (List.mem_cons_of_mem _ hz)) (fun z hz => hb z (List.mem_cons_of_mem _ hz)) hrest
      exact ⟨by rw [hxy, this.1], this.2⟩

def isDigitB (b : Nat) : Bool := decide (48 ≤ b) && decide (b ≤ 57)

theorem natBytes_digits (n : Nat) : ∀ b ∈ natBytes n, isDigitB b = true := by
  intro b hb
  simp only [natBytes, List.mem_map] at hb
  obtain ⟨c, hc, rfl⟩ := hb
  have := Nat.isDigit_of_mem_toDigits (b := 10) (by decide) (by decide) hc
  simp only [Char.isDigit, Bool.and_eq_true, decide_eq_true_eq] at this
  simp only [isDigitB, Bool.and_eq_true, decide_eq_true_eq]
  have h1 : c.toNat = c.val.toNat := rfl
  obtain ⟨a1, a2⟩ := this
  have b1 : ('0' : Char).val.toNat ≤ c.val.toNat := UInt32.le_iff_toNat_le.mp a1
  have b2 : c.val.toNat ≤ ('9' : Char).val.toNat := UInt32.le_iff_toNat_le.mp a2
  have e0 : ('0' : Char).val.toNat = 48 := rfl
  have e9 : ('9' : Char).val.toNat = 57 := rfl
  omega

theorem natBytes_ne_nil (n : Nat) : natBytes n ≠ [] := by
  simp only [natBytes, ne_eq, List.map_eq_nil_iff]
  exact Nat.toDigits_ne_nil

theorem natBytes_inj {n m : Nat} (h : natBytes n = natBytes m) : n = m := by
  simp only [natBytes] at h
  have inj : ∀ (l1 l2 : List Char), l1.map Char.toNat = l2.map Char.toNat → l1 = l2 := by
    intro l1
    induction l1 with
    | nil => intro l2 hh; cases l2 with | nil => rfl | cons _ _ => simp at hh
    | cons a as ih =>
      intro l2 hh
      cases l2 with
      | nil => simp at hh
      | cons b bs =>
        simp only [List.map_cons, List.cons.injEq] at hh
        rw [Char.toNat_inj.mp hh.1, ih bs hh.2]
  have : Nat.toDigits 10 n = Nat.toDigits 10 m := inj _ _ h
  have e := congrArg (fun l => Nat.ofDigitChars 10 l 0) this
  simpa using e

/-- a byte string does not start with a decimal digit -/
def NoDigitHead (r : Bytes) : Prop := ∀ x, r.head? = some x → isDigitB x = false

theorem intBytes_unique (i j : Int) (r1 r2 : Bytes) (h1 : NoDigitHead r1) (h2 : NoDigitHead r2)
    (h : intBytes i ++ r1 = intBytes j ++ r2) : i = j ∧ r1 = r2 := by
  unfold intBytes at h
  have key : ∀ n m : Nat, natBytes n ++ r1 = natBytes m ++ r2 → n = m ∧ r1 = r2 := by
    intro n m hh
    have := span_unique (p := isDigitB) _ _ r1 r2 (natBytes_digits n) (natBytes_digits m) h1 h2 hh
    exact ⟨natBytes_inj this.1, this.2⟩
  have headDigit : ∀ n : Nat, ∃ d rest, natBytes n = d :: rest ∧ isDigitB d = true := by
    intro n
    cases hn : natBytes n with
    | nil => exact absurd hn (natBytes_ne_nil n)
    | cons d rest => exact ⟨d, rest, rfl, natBytes_digits n d (by rw [hn]; exact List.mem_cons_self ..)⟩
  by_cases hi : i < 0
  · by_cases hj : j < 0
    · simp only [hi, hj, ↓reduceIte, List.cons_append, List.cons.injEq, true_and] at h
      obtain ⟨e, er⟩ := key _ _ h
      exact ⟨by omega, er⟩
    · exfalso
      simp only [hi, hj, ↓reduceIte, List.cons_append] at h
      obtain ⟨d, rest, hd, hdig⟩ := headDigit j.natAbs
      rw [hd] at h
      simp only [List.cons_append, List.cons.injEq] at h
      rw [← h.1] at hdig
      revert hdig; decide
  · by_cases hj : j < 0
    · exfalso
      simp only [hi, hj, ↓reduceIte, List.cons_append] at h
      obtain ⟨d, rest, hd, hdig⟩ := headDigit i.natAbs
      rw [hd] at h
      simp only [List.cons_append, List.cons.injEq] at h
      rw [h.1] at hdig
      revert hdig; decide
    · simp only [hi, hj, ↓reduceIte] at h
      obtain ⟨e, er⟩ := key _ _ h
      exact ⟨by omega, er⟩

/-! ### UTF-8 is a prefix code -/

theorem utf8_cases (c : Nat) :
    (c < 0x80 ∧ utf8 c = [c]) ∨
    (0x80 ≤ c ∧ c < 0x800 ∧ utf8 c = [0xC0 + c / 64, 0x80 + c % 64]) ∨
    (0x800 ≤ c ∧ c < 0x10000 ∧ utf8 c = [0xE0 + c / 4096, 0x80 + (c / 64) % 64, 0x80 + c % 64]) ∨
    (0x10000 ≤ c ∧ utf8 c = [0xF0 + c / 262144, 0x80 + (c / 4096) % 64, 0x80 + (c / 64) % 64, 0x80 + c % 64]) := by
  by_cases h1 : c < 0x80
  · exact Or.inl ⟨h1, utf8_1 h1⟩
  · by_cases h2 : c < 0x800
    · exact Or.inr (Or.inl ⟨by omega, h2, utf8_2 h1 h2⟩)
    · by_cases h3 : c < 0x10000
      · exact Or.inr (Or.inr (Or.inl ⟨by omega, h3, utf8_3 h2 h3⟩))
      · exact Or.inr (Or.inr (Or.inr ⟨by omega, utf8_4 h3⟩))

theorem utf8_prefix_free {c d : Nat} (hc : c < 0x110000) (hd : d < 0x110000) (X Y : Bytes)
    (h : utf8 c ++ X = utf8 d ++ Y) : c = d ∧ X = Y := by
  rcases utf8_cases c with ⟨c1, ec⟩ | ⟨c1, c2, ec⟩ | ⟨c1, c2, ec⟩ | ⟨c1, ec⟩ <;>
  rcases utf8_cases d with ⟨d1, ed⟩ | ⟨d1, d2, ed⟩ | ⟨d1, d2, ed⟩ | ⟨d1, ed⟩ <;>
  · rw [ec, ed] at h
    simp only [List.cons_append, List.nil_append, List.cons.injEq] at h
    first
      | exact ⟨by omega, by first | exact h.2 | exact h.2.2 | exact h.2.2.2 | exact h.2.2.2.2⟩
      | (exfalso; omega)
      | (exfalso; obtain ⟨h0, _⟩ := h; omega)

/-- the first byte of an encoded scalar is neither a quotation mark nor a backslash unless the scalar is -/
theorem utf8_head (c : Nat) : ∃ b rest, utf8 c = b :: rest ∧ (c < 0x80 → b = c) ∧ (0x80 ≤ c → 0x80 ≤ b) := by
  rcases utf8_cases c with ⟨c1, ec⟩ | ⟨c1, c2, ec⟩ | ⟨c1, c2, ec⟩ | ⟨c1, ec⟩
  · exact ⟨_, _, ec, fun _ => rfl, fun h => by omega⟩
  · exact ⟨_, _, ec, fun h => by omega, fun _ => by omega⟩
  · exact ⟨_, _, ec, fun h => by omega, fun _ => by omega⟩
  · exact ⟨_, _, ec, fun h => by omega, fun _ => by omega⟩

/-! ### string content: `escStr` followed by the closing quotation mark -/

theorem escChar_cases (c : Nat) :
    ((c = 0x22 ∨ c = 0x5C) ∧ escChar c = [0x5C, c]) ∨ (c ≠ 0x22 ∧ c ≠ 0x5C ∧ escChar c = utf8 c) := by
  unfold escChar
  by_cases h1 : c = 0x22
  · subst h1; exact Or.inl ⟨Or.inl rfl, rfl⟩
  · by_cases h2 : c = 0x5C
    · subst h2; exact Or.inl ⟨Or.inr rfl, rfl⟩
    · right
      refine ⟨h1, h2, ?_⟩
      have : (c == 0x22 || c == 0x5C) = false := by simp [h1, h2]
      simp [this]

/-- the head byte of an escaped scalar: `\` exactly for the two escaped scalars, never `"` -/
theorem escChar_head (c : Nat) : ∃ b rest, escChar c = b :: rest ∧ b ≠ 0x22 ∧ (b = 0x5C ↔ (c = 0x22 ∨ c = 0x5C)) := by
  rcases escChar_cases c with ⟨hc, e⟩ | ⟨h1, h2, e⟩
  · exact ⟨0x5C, [c], e, by decide, by simp [hc]⟩
  · obtain ⟨b, rest, eb, hlo, hhi⟩ := utf8_head c
    refine ⟨b, rest, by rw [e, eb], ?_, ?_⟩
    · by_cases hc : c < 0x80
      · rw [hlo hc]; exact h1
      · have := hhi (by omega); omega
    · constructor
      · intro hb
        exfalso
        by_cases hc : c < 0x80
        · rw [hlo hc] at hb; exact h2 hb
        · have := hhi (by omega); omega
      · intro hh
        rcases hh with hh | hh
        · exact absurd hh h1
        · exact absurd hh h2

theorem escChar_prefix_free {c d : Nat} (hc : c < 0x110000) (hd : d < 0x110000) (X Y : Bytes)
    (h : escChar c ++ X = escChar d ++ Y) : c = d ∧ X = Y := by
  rcases escChar_cases c with ⟨hcq, ec⟩ | ⟨c1, c2, ec⟩ <;> rcases escChar_cases d with ⟨hdq, ed⟩ | ⟨d1, d2, ed⟩
  · rw [ec, ed] at h
    simp only [List.cons_append, List.nil_append, List.cons.injEq, true_and] at h
    exact h
  · exfalso
    obtain ⟨b, rest, eb, _, hiff⟩ := escChar_head d
    rw [ec] at h
    rw [eb] at h
    simp only [List.cons_append, List.cons.injEq] at h
    have := hiff.mp h.1.symm
    rcases this with e | e
    · exact d1 e
    · exact d2 e
  · exfalso
    obtain ⟨b, rest, eb, _, hiff⟩ := escChar_head c
    rw [ed] at h
    rw [eb] at h
    simp only [List.cons_append, List.cons.injEq] at h
    have := hiff.mp h.1
    rcases this with e | e
    · exact c1 e
    · exact c2 e
  · rw [ec, ed] at h
    exact utf8_prefix_free hc hd X Y h

/-- string content up to the closing quotation mark can be read back -/
theorem escStr_unique (s t : Str) (r1 r2 : Bytes) (hs : ∀ c ∈ s, c < 0x110000) (ht : ∀ c ∈ t, c < 0x110000)
    (h : escStr s ++ 0x22 :: r1 = escStr t ++ 0x22 :: r2) : s = t ∧ r1 = r2 := by
  induction s generalizing t with
  | nil =>
    cases t with
    | nil => simpa [escStr] using h
    | cons d ds =>
      exfalso
      obtain ⟨b, rest, eb, hq, _⟩ := escChar_head d
      simp only [escStr, List.flatMap_nil, List.nil_append, List.flatMap_cons, eb, List.cons_append, List.cons.injEq] at h
      exact hq h.1.symm
  | cons c cs ih =>
    cases t with
    | nil =>
      exfalso
      obtain ⟨b, rest, eb, hq, _⟩ := escChar_head c
      simp only [escStr, List.flatMap_nil, List.nil_append, List.flatMap_cons, eb, List.cons_append, List.cons.injEq] at h
      exact hq h.1
    | cons d ds =>
      simp only [escStr, List.flatMap_cons, List.append_assoc] at h
      have := escChar_prefix_free (hs c (List.mem_cons_self ..)) (ht d (List.mem_cons_self ..)) _ _ h
      obtain ⟨e1, e2⟩ := this
      have := ih ds (fun x hx => hs x (List.mem_cons_of_mem _ hx)) (fun x hx => ht x (List.mem_cons_of_mem _ hx)) e2
      exact ⟨by rw [e1, this.1], this.2⟩

theorem quote_unique (s t : Str) (r1 r2 : Bytes) (hs : ∀ c ∈ s, c < 0x110000) (ht : ∀ c ∈ t, c < 0x110000)
    (h : quote s ++ r1 = quote t ++ r2) : s = t ∧ r1 = r2 := by
  simp only [quote, List.cons_append, List.append_assoc, List.cons.injEq, true_and, List.nil_append] at h
  exact escStr_unique s t r1 r2 hs ht h

/-! ### Direct rendering: the bytes of a value whose strings and member order are taken as they are -/

mutual
def render : JVal → Option Bytes
  | .null => some [0x6E, 0x75, 0x6C, 0x6C]
  | .bool true => some [0x74, 0x72, 0x75, 0x65]
  | .bool false => some [0x66, 0x61, 0x6C, 0x73, 0x65]
  | .int i => some (intBytes i)
  | .float => none
  | .str s => some (quote s)
  | .arr xs => (renderL true xs).map fun b => 0x5B :: b ++ [0x5D]
  | .obj ms => (renderM true ms).map fun b => 0x7B :: b ++ [0x7D]
def renderL (first : Bool) : JList → Option Bytes
  | .nil => some []
  | .cons v rest =>
    match render v, renderL false rest with
    | some b, some bs => some ((if first then [] else [0x2C]) ++ b ++ bs)
    | _, _ => none
def renderM (first : Bool) : JMembers → Option Bytes
  | .nil => some []
  | .cons k v rest =>
    match render v, renderM false rest with
    | some b, some bs => some ((if first then [] else [0x2C]) ++ quote k ++ [0x3A] ++ b ++ bs)
    | _, _ => none
end

/-- what may follow a value inside a document: nothing, a comma, or a closing bracket -/
def Term (r : Bytes) : Prop := ∀ x, r.head? = some x → x = 0x2C ∨ x = 0x5D ∨ x = 0x7D

theorem Term.noDigit {r : Bytes} (h : Term r) : NoDigitHead r := by
  intro x hx
  rcases h x hx with e | e | e <;> (subst e; decide)

theorem term_nil : Term [] := by intro x hx; simp at hx
theorem term_cons_comma (r : Bytes) : Term (0x2C :: r) := by intro x hx; simp at hx; exact Or.inl hx.symm
theorem term_cons_rbracket (r : Bytes) : Term (0x5D :: r) := by intro x hx; simp at hx; exact Or.inr (Or.inl hx.symm)
theorem term_cons_rbrace (r : Bytes) : Term (0x7D :: r) := by intro x hx; simp at hx; exact Or.inr (Or.inr hx.symm)

/-- the constructor of a value -/
def tagOf : JVal → Nat
  | .null => 0 | .bool _ => 1 | .int _ => 2 | .float => 7 | .str _ => 3 | .arr _ => 4 | .obj _ => 5

/-- the constructor announced by the first byte -/
def headTag (h : Nat) : Nat :=
  if h = 0x6E then 0 else if h = 0x74 ∨ h = 0x66 then 1 else if h = 0x2D ∨ isDigitB h = true then 2
  else if h = 0x22 then 3 else if h = 0x5B then 4 else if h = 0x7B then 5 else 9

theorem intBytes_head (i : Int) : ∃ h t, intBytes i = h :: t ∧ (h = 0x2D ∨ isDigitB h = true) := by
  unfold intBytes
  split
  · exact ⟨0x2D, _, rfl, Or.inl rfl⟩
  · cases hn : natBytes i.natAbs with
    | nil => exact absurd hn (natBytes_ne_nil _)
    | cons d rest => exact ⟨d, rest, rfl, Or.inr (natBytes_digits _ d (by rw [hn]; exact List.mem_cons_self ..))⟩

theorem render_head (v : JVal) (b : Bytes) (h : render v = some b) : ∃ x t, b = x :: t ∧ headTag x = tagOf v := by
  cases v with
  | null => simp only [render, Option.some.injEq] at h; subst h; exact ⟨_, _, rfl, by decide⟩
  | bool bb =>
    cases bb <;> (simp only [render, Option.some.injEq] at h; subst h; exact ⟨_, _, rfl, by decide⟩)
  | int i =>
    simp only [render, Option.some.injEq] at h; subst h
    obtain ⟨x, t, e, hx⟩ := intBytes_head i
    refine ⟨x, t, e, ?_⟩
    rcases hx with hx | hx
    · subst hx; simp only [tagOf]; decide
    · simp only [headTag, tagOf]
      have h1 : x ≠ 0x6E := by intro e; subst e; revert hx; decide
      have h2 : ¬ (x = 0x74 ∨ x = 0x66) := by
        intro e; rcases e with e | e <;> (subst e; revert hx; decide)
      simp [h1, h2, hx]
  | float => simp [render] at h
  | str s => simp only [render, Option.some.injEq] at h; subst h; exact ⟨_, _, rfl, by simp only [tagOf]; decide⟩
  | arr xs =>
    simp only [render, Option.map_eq_some_iff] at h
    obtain ⟨bs, _, e⟩ := h
    subst e; exact ⟨_, _, rfl, by simp only [tagOf]; decide⟩
  | obj ms =>
    simp only [render, Option.map_eq_some_iff] at h
    obtain ⟨bs, _, e⟩ := h
    subst e; exact ⟨_, _, rfl, by simp only [tagOf]; decide⟩

/-- after the first element, what `renderL false` / `renderM false` produce is empty or starts with a comma -/
theorem renderL_false_term (xs : JList) (bs r : Bytes) (h : renderL false xs = some bs) : Term (bs ++ 0x5D :: r) := by
  cases xs with
  | nil => simp only [renderL, Option.some.injEq] at h; subst h; exact term_cons_rbracket r
  | cons v rest =>
    simp only [renderL] at h
    split at h
    · simp only [Bool.false_eq_true, ↓reduceIte, Option.some.injEq] at h; subst h
      simp only [List.cons_append, List.nil_append, List.append_assoc]
      exact term_cons_comma _
    · cases h

theorem renderM_false_term (ms : JMembers) (bs r : Bytes) (h : renderM false ms = some bs) : Term (bs ++ 0x7D :: r) := by
  cases ms with
  | nil => simp only [renderM, Option.some.injEq] at h; subst h; exact term_cons_rbrace r
  | cons k v rest =>
    simp only [renderM] at h
    split at h
    · simp only [Bool.false_eq_true, ↓reduceIte, Option.some.injEq] at h; subst h
      simp only [List.cons_append, List.nil_append, List.append_assoc]
      exact term_cons_comma _
    · cases h

theorem headTag_rbracket : headTag 0x5D = 9 := by decide
theorem headTag_rbrace : headTag 0x7D = 9 := by decide
theorem headTag_comma : headTag 0x2C = 9 := by decide

theorem tagOf_lt (v : JVal) (b : Bytes) (h : render v = some b) : tagOf v < 6 := by
  cases v <;> simp [tagOf, render] at h ⊢

theorem tag_eq_of_append (v w : JVal) (b1 b2 r1 r2 : Bytes) (h1 : render v = some b1) (h2 : render w = some b2)
    (h : b1 ++ r1 = b2 ++ r2) : tagOf v = tagOf w := by
  obtain ⟨x1, t1, e1, g1⟩ := render_head _ _ h1
  obtain ⟨x2, t2, e2, g2⟩ := render_head _ _ h2
  have hx : x1 = x2 := by rw [e1, e2] at h; simp only [List.cons_append, List.cons.injEq] at h; exact h.1
  rw [← g1, ← g2, hx]

mutual
/-- **the rendering can be read back**: a rendered value followed by a terminator determines the value
and where it ends -/
theorem render_inj : (v w : JVal) → (b1 b2 r1 r2 : Bytes) → validJ v = true → validJ w = true →
    render v = some b1 → render w = some b2 → Term r1 → Term r2 → b1 ++ r1 = b2 ++ r2 → v = w ∧ r1 = r2
  | .null, w, b1, b2, r1, r2, _, _, h1, h2, _, _, h => by
    have htag := tag_eq_of_append _ _ _ _ _ _ h1 h2 h
    cases w with
    | null =>
      simp only [render, Option.some.injEq] at h1 h2
      subst h1; subst h2
      exact ⟨rfl, List.append_cancel_left h⟩
    | bool b => simp [tagOf] at htag
    | int j => simp [tagOf] at htag
    | float => simp [tagOf] at htag
    | str t => simp [tagOf] at htag
    | arr ys => simp [tagOf] at htag
    | obj ns => simp [tagOf] at htag
  | .bool a, w, b1, b2, r1, r2, _, _, h1, h2, _, _, h => by
    have htag := tag_eq_of_append _ _ _ _ _ _ h1 h2 h
    cases w with
    | bool b =>
      cases a <;> cases b <;> simp only [render, Option.some.injEq] at h1 h2 <;> subst h1 <;> subst h2
      · exact ⟨rfl, List.append_cancel_left h⟩
      · simp at h
      · simp at h
      · exact ⟨rfl, List.append_cancel_left h⟩
    | null => simp [tagOf] at htag
    | int j => simp [tagOf] at htag
    | float => simp [tagOf] at htag
    | str t => simp [tagOf] at htag
    | arr ys => simp [tagOf] at htag
    | obj ns => simp [tagOf] at htag
  | .int i, w, b1, b2, r1, r2, _, _, h1, h2, t1', t2', h => by
    have htag := tag_eq_of_append _ _ _ _ _ _ h1 h2 h
    cases w with
    | int j =>
      simp only [render, Option.some.injEq] at h1 h2
      subst h1; subst h2
      obtain ⟨e, er⟩ := intBytes_unique i j r1 r2 t1'.noDigit t2'.noDigit h
      exact ⟨by rw [e], er⟩
    | null => simp [tagOf] at htag
    | bool b => simp [tagOf] at htag
    | float => simp [tagOf] at htag
    | str t => simp [tagOf] at htag
    | arr ys => simp [tagOf] at htag
    | obj ns => simp [tagOf] at htag
  | .float, _, _, _, _, _, _, _, h1, _, _, _, _ => by simp [render] at h1
  | .str s, w, b1, b2, r1, r2, v1, v2, h1, h2, _, _, h => by
    have htag := tag_eq_of_append _ _ _ _ _ _ h1 h2 h
    cases w with
    | str t =>
      simp only [render, Option.some.injEq] at h1 h2
      subst h1; subst h2
      simp only [validJ, List.all_eq_true, decide_eq_true_eq] at v1 v2
      obtain ⟨e, er⟩ := quote_unique s t r1 r2 v1 v2 h
      exact ⟨by rw [e], er⟩
    | null => simp [tagOf] at htag
    | bool b => simp [tagOf] at htag
    | int j => simp [tagOf] at htag
    | float => simp [tagOf] at htag
    | arr ys => simp [tagOf] at htag
    | obj ns => simp [tagOf] at htag
  | .arr xs, w, b1, b2, r1, r2, v1, v2, h1, h2, _, _, h => by
    have htag := tag_eq_of_append _ _ _ _ _ _ h1 h2 h
    cases w with
    | arr ys =>
      simp only [render, Option.map_eq_some_iff] at h1 h2
      obtain ⟨c1, hc1, rfl⟩ := h1
      obtain ⟨c2, hc2, rfl⟩ := h2
      simp only [List.cons_append, List.append_assoc, List.cons.injEq, true_and, List.nil_append] at h
      simp only [validJ] at v1 v2
      obtain ⟨e, er⟩ := renderL_inj xs ys true c1 c2 r1 r2 v1 v2 hc1 hc2 h
      exact ⟨by rw [e], er⟩
    | null => simp [tagOf] at htag
    | bool b => simp [tagOf] at htag
    | int j => simp [tagOf] at htag
    | float => simp [tagOf] at htag
    | str t => simp [tagOf] at htag
    | obj ns => simp [tagOf] at htag
  | .obj ms, w, b1, b2, r1, r2, v1, v2, h1, h2, _, _, h => by
    have htag := tag_eq_of_append _ _ _ _ _ _ h1 h2 h
    cases w with
    | obj ns =>
      simp only [render, Option.map_eq_some_iff] at h1 h2
      obtain ⟨c1, hc1, rfl⟩ := h1
      obtain ⟨c2, hc2, rfl⟩ := h2
      simp only [List.cons_append, List.append_assoc, List.cons.injEq, true_and, List.nil_append] at h
      simp only [validJ] at v1 v2
      obtain ⟨e, er⟩ := renderM_inj ms ns true c1 c2 r1 r2 v1 v2 hc1 hc2 h
      exact ⟨by rw [e], er⟩
    | null => simp [tagOf] at htag
    | bool b => simp [tagOf] at htag
    | int j => simp [tagOf] at htag
    | float => simp [tagOf] at htag
    | str t => simp [tagOf] at htag
    | arr ys => simp [tagOf] at htag
theorem renderL_inj : (xs ys : JList) → (f : Bool) → (b1 b2 r1 r2 : Bytes) → validL xs = true → validL ys = true →
    renderL f xs = some b1 → renderL f ys = some b2 → b1 ++ 0x5D :: r1 = b2 ++ 0x5D :: r2 → xs = ys ∧ r1 = r2
  | .nil, .nil, _, b1, b2, r1, r2, _, _, h1, h2, h => by
    simp only [renderL, Option.some.injEq] at h1 h2
    subst h1; subst h2
    simp only [List.nil_append, List.cons.injEq, true_and] at h
    exact ⟨rfl, h⟩
  | .nil, .cons y ys, f, b1, b2, r1, r2, _, _, h1, h2, h => by
    exfalso
    simp only [renderL, Option.some.injEq] at h1
    subst h1
    simp only [renderL] at h2
    split at h2
    · rename_i by' bs hy _
      simp only [Option.some.injEq] at h2
      subst h2
      obtain ⟨x, t, e, g⟩ := render_head _ _ hy
      have := tagOf_lt _ _ hy
      cases f
      · simp at h
      · simp only [↓reduceIte, List.nil_append, e, List.cons_append, List.cons.injEq] at h
        rw [← h.1, headTag_rbracket] at g
        omega
    · cases h2
  | .cons x xs, .nil, f, b1, b2, r1, r2, _, _, h1, h2, h => by
    exfalso
    simp only [renderL, Option.some.injEq] at h2
    subst h2
    simp only [renderL] at h1
    split at h1
    · rename_i bx bs hx _
      simp only [Option.some.injEq] at h1
      subst h1
      obtain ⟨x', t, e, g⟩ := render_head _ _ hx
      have := tagOf_lt _ _ hx
      cases f
      · simp at h
      · simp only [↓reduceIte, List.nil_append, e, List.cons_append, List.cons.injEq] at h
        rw [h.1, headTag_rbracket] at g
        omega
    · cases h1
  | .cons x xs, .cons y ys, f, b1, b2, r1, r2, v1, v2, h1, h2, h => by
    simp only [renderL] at h1 h2
    split at h1
    · rename_i bx bxs hx hxs
      split at h2
      · rename_i by' bys hy hys
        simp only [Option.some.injEq] at h1 h2
        subst h1; subst h2
        simp only [validL, Bool.and_eq_true] at v1 v2
        have h' : bx ++ (bxs ++ 0x5D :: r1) = by' ++ (bys ++ 0x5D :: r2) := by
          cases f <;> simpa [List.append_assoc] using h
        obtain ⟨e1, e2⟩ := render_inj x y bx by' _ _ v1.1 v2.1 hx hy (renderL_false_term xs bxs r1 hxs) (renderL_false_term ys bys r2 hys) h'
        obtain ⟨e3, e4⟩ := renderL_inj xs ys false bxs bys r1 r2 v1.2 v2.2 hxs hys e2
        exact ⟨by rw [e1, e3], e4⟩
      · cases h2
    · cases h1
theorem renderM_inj : (ms ns : JMembers) → (f : Bool) → (b1 b2 r1 r2 : Bytes) → validM ms = true → validM ns = true →
    renderM f ms = some b1 → renderM f ns = some b2 → b1 ++ 0x7D :: r1 = b2 ++ 0x7D :: r2 → ms = ns ∧ r1 = r2
  | .nil, .nil, _, b1, b2, r1, r2, _, _, h1, h2, h => by
    simp only [renderM, Option.some.injEq] at h1 h2
    subst h1; subst h2
    simp only [List.nil_append, List.cons.injEq, true_and] at h
    exact ⟨rfl, h⟩
  | .nil, .cons k y ys, f, b1, b2, r1, r2, _, _, h1, h2, h => by
    exfalso
    simp only [renderM, Option.some.injEq] at h1
    subst h1
    simp only [renderM] at h2
    split at h2
    · simp only [Option.some.injEq] at h2
      subst h2
      cases f <;> simp [quote] at h
    · cases h2
  | .cons k x xs, .nil, f, b1, b2, r1, r2, _, _, h1, h2, h => by
    exfalso
    simp only [renderM, Option.some.injEq] at h2
    subst h2
    simp only [renderM] at h1
    split at h1
    · simp only [Option.some.injEq] at h1
      subst h1
      cases f <;> simp [quote] at h
    · cases h1
  | .cons k x xs, .cons l y ys, f, b1, b2, r1, r2, v1, v2, h1, h2, h => by
    simp only [renderM] at h1 h2
    split at h1
    · rename_i bx bxs hx hxs
      split at h2
      · rename_i by' bys hy hys
        simp only [Option.some.injEq] at h1 h2
        subst h1; subst h2
        simp only [validM, Bool.and_eq_true, List.all_eq_true, decide_eq_true_eq] at v1 v2
        have h' : quote k ++ (0x3A :: (bx ++ (bxs ++ 0x7D :: r1))) = quote l ++ (0x3A :: (by' ++ (bys ++ 0x7D :: r2))) := by
          cases f <;> simpa [List.append_assoc] using h
        obtain ⟨ek, e0⟩ := quote_unique k l _ _ v1.1.1 v2.1.1 h'
        simp only [List.cons.injEq, true_and] at e0
        obtain ⟨e1, e2⟩ := render_inj x y bx by' _ _ v1.1.2 v2.1.2 hx hy (renderM_false_term xs bxs r1 hxs) (renderM_false_term ys bys r2 hys) e0
        obtain ⟨e3, e4⟩ := renderM_inj xs ys false bxs bys r1 r2 v1.2 v2.2 hxs hys e2
        exact ⟨by rw [ek, e1, e3], e4⟩
      · cases h2
    · cases h1
end

/-! ### The normal form `canon` computes, as a value -/

/-- `memInsert` on members that still carry their values -/
def insertJ (k : Str) (v : JVal) : JMembers → JMembers
  | .nil => .cons k v .nil
  | .cons k' v' rest =>
    if strLt k k' then .cons k v (.cons k' v' rest)
    else if strLt k' k then .cons k' v' (insertJ k v rest)
    else .cons k v rest

def sortJAux : JMembers → JMembers → JMembers
  | .nil, acc => acc
  | .cons k v rest, acc => sortJAux rest (insertJ k v acc)

/-- members ordered by key, a later member replacing an earlier one with the same key -/
def sortJ (ms : JMembers) : JMembers := sortJAux ms .nil

mutual
/-- the value with every string normalised and the members of every object in canonical order -/
def nrm (nfc : Str → Str) : JVal → JVal
  | .null => .null
  | .bool b => .bool b
  | .int i => .int i
  | .float => .float
  | .str s => .str (normStr nfc s)
  | .arr xs => .arr (nrmL nfc xs)
  | .obj ms => .obj (sortJ (nrmM nfc ms))
def nrmL (nfc : Str → Str) : JList → JList
  | .nil => .nil
  | .cons v rest => .cons (nrm nfc v) (nrmL nfc rest)
def nrmM (nfc : Str → Str) : JMembers → JMembers
  | .nil => .nil
  | .cons k v rest => .cons (normStr nfc k) (nrm nfc v) (nrmM nfc rest)
end

/-- members as (key, rendered value) -/
def toMem : JMembers → Option (List Member)
  | .nil => some []
  | .cons k v rest =>
    match render v, toMem rest with
    | some b, some es => some ((k, b) :: es)
    | _, _ => none

theorem renderM_eq : (f : Bool) → (js : JMembers) → (es : List Member) → toMem js = some es →
    renderM f js = some (renderCanon f es)
  | f, .nil, es, h => by simp only [toMem, Option.some.injEq] at h; subst h; rfl
  | f, .cons k v rest, es, h => by
    simp only [toMem] at h
    split at h
    · rename_i b es' hb hes
      simp only [Option.some.injEq] at h
      subst h
      simp only [renderM, hb, renderM_eq false rest es' hes, renderCanon]
    · cases h

theorem toMem_insertJ (k : Str) (v : JVal) (b : Bytes) (hv : render v = some b) :
    (js : JMembers) → (es : List Member) → toMem js = some es → toMem (insertJ k v js) = some (memInsert k b es)
  | .nil, es, h => by simp only [toMem, Option.some.injEq] at h; subst h; simp [insertJ, toMem, hv, memInsert]
  | .cons k' v' rest, es, h => by
    simp only [toMem] at h
    split at h
    · rename_i b' es' hb' hes'
      simp only [Option.some.injEq] at h
      subst h
      simp only [insertJ, memInsert]
      split
      · simp [toMem, hv, hb', hes']
      · split
        · simp [toMem, hb', toMem_insertJ k v b hv rest es' hes']
        · simp [toMem, hv, hes']
    · cases h

theorem toMem_sortJAux : (ms acc : JMembers) → (es ea : List Member) → toMem ms = some es → toMem acc = some ea →
    toMem (sortJAux ms acc) = some (es.foldl (fun a m => memInsert m.1 m.2 a) ea)
  | .nil, acc, es, ea, hm, ha => by simp only [toMem, Option.some.injEq] at hm; subst hm; simpa [sortJAux] using ha
  | .cons k v rest, acc, es, ea, hm, ha => by
    simp only [toMem] at hm
    split at hm
    · rename_i b es' hb hes'
      simp only [Option.some.injEq] at hm
      subst hm
      simp only [sortJAux, List.foldl_cons]
      exact toMem_sortJAux rest _ es' _ hes' (toMem_insertJ k v b hb acc ea ha)
    · cases hm

theorem toMem_sortJ (ms : JMembers) (es : List Member) (hm : toMem ms = some es) :
    toMem (sortJ ms) = some (sortMembers es) := by
  simpa [sortJ, sortMembers] using toMem_sortJAux ms .nil es [] hm rfl

mutual
/-- **the canonical form of a value is the direct rendering of its normal form** -/
theorem canon_render (nfc : Str → Str) : (v : JVal) → (b : Bytes) → canon nfc v = some b → render (nrm nfc v) = some b
  | .null, b, h => by simpa [canon, nrm, render] using h
  | .bool true, b, h => by simpa [canon, nrm, render] using h
  | .bool false, b, h => by simpa [canon, nrm, render] using h
  | .int i, b, h => by simpa [canon, nrm, render] using h
  | .float, b, h => by simp [canon] at h
  | .str s, b, h => by simpa [canon, nrm, render] using h
  | .arr xs, b, h => by
    simp only [canon, Option.map_eq_some_iff] at h
    obtain ⟨c, hc, rfl⟩ := h
    simp only [nrm, render, canonList_render nfc xs true c hc, Option.map_some]
  | .obj ms, b, h => by
    simp only [canon, Option.map_eq_some_iff] at h
    obtain ⟨es, hes, rfl⟩ := h
    have h1 := canonMembers_toMem nfc ms es hes
    have h2 := toMem_sortJ _ _ h1
    simp only [nrm, render, renderM_eq true _ _ h2, Option.map_some]
theorem canonList_render (nfc : Str → Str) : (xs : JList) → (f : Bool) → (b : Bytes) → canonList nfc f xs = some b →
    renderL f (nrmL nfc xs) = some b
  | .nil, f, b, h => by simpa [canonList, nrmL, renderL] using h
  | .cons v rest, f, b, h => by
    simp only [canonList] at h
    split at h
    · rename_i bv bs hv hs
      simp only [Option.some.injEq] at h
      subst h
      simp only [nrmL, renderL, canon_render nfc v bv hv, canonList_render nfc rest false bs hs]
    · cases h
theorem canonMembers_toMem (nfc : Str → Str) : (ms : JMembers) → (es : List Member) → canonMembers nfc ms = some es →
    toMem (nrmM nfc ms) = some es
  | .nil, es, h => by simpa [canonMembers, nrmM, toMem] using h
  | .cons k v rest, es, h => by
    simp only [canonMembers] at h
    split at h
    · rename_i bv es' hv hes'
      simp only [Option.some.injEq] at h
      subst h
      simp only [nrmM, toMem, canon_render nfc v bv hv, canonMembers_toMem nfc rest es' hes']
    · cases h
end

/-! ### validity is kept by the normal form -/

theorem validM_insertJ (k : Str) (v : JVal) (hk : k.all (· < 0x110000) = true) (hv : validJ v = true) :
    (js : JMembers) → validM js = true → validM (insertJ k v js) = true
  | .nil, _ => by simp [insertJ, validM, hk, hv]
  | .cons k' v' rest, h => by
    simp only [validM, Bool.and_eq_true] at h
    simp only [insertJ]
    split
    · simp [validM, hk, hv, h.1.1, h.1.2, h.2]
    · split
      · simp [validM, h.1.1, h.1.2, validM_insertJ k v hk hv rest h.2]
      · simp [validM, hk, hv, h.2]

theorem validM_sortJAux : (ms acc : JMembers) → validM ms = true → validM acc = true → validM (sortJAux ms acc) = true
  | .nil, acc, _, ha => by simpa [sortJAux] using ha
  | .cons k v rest, acc, hm, ha => by
    simp only [validM, Bool.and_eq_true] at hm
    simp only [sortJAux]
    exact validM_sortJAux rest _ hm.2 (validM_insertJ k v hm.1.1 hm.1.2 acc ha)

mutual
theorem validJ_nrm {nfc : Str → Str} (hn : NfcOk nfc) : (v : JVal) → validJ v = true → validJ (nrm nfc v) = true
  | .null, _ => rfl
  | .bool _, _ => rfl
  | .int _, _ => rfl
  | .float, _ => rfl
  | .str s, h => by
    simp only [validJ, List.all_eq_true, decide_eq_true_eq] at h
    simp only [nrm, validJ, List.all_eq_true, decide_eq_true_eq]
    exact normStr_valid hn s h
  | .arr xs, h => by simp only [validJ] at h; simp only [nrm, validJ]; exact validL_nrm hn xs h
  | .obj ms, h => by
    simp only [validJ] at h
    simp only [nrm, validJ, sortJ]
    exact validM_sortJAux _ .nil (validM_nrm hn ms h) rfl
theorem validL_nrm {nfc : Str → Str} (hn : NfcOk nfc) : (xs : JList) → validL xs = true → validL (nrmL nfc xs) = true
  | .nil, _ => rfl
  | .cons v rest, h => by
    simp only [validL, Bool.and_eq_true] at h
    simp only [nrmL, validL, Bool.and_eq_true]
    exact ⟨validJ_nrm hn v h.1, validL_nrm hn rest h.2⟩
theorem validM_nrm {nfc : Str → Str} (hn : NfcOk nfc) : (ms : JMembers) → validM ms = true → validM (nrmM nfc ms) = true
  | .nil, _ => rfl
  | .cons k v rest, h => by
    simp only [validM, Bool.and_eq_true, List.all_eq_true, decide_eq_true_eq] at h
    simp only [nrmM, validM, Bool.and_eq_true, List.all_eq_true, decide_eq_true_eq]
    exact ⟨⟨normStr_valid hn k h.1.1, validJ_nrm hn v h.1.2⟩, validM_nrm hn rest h.2⟩
end

/-- **The canonical form determines the value** up to what `nrm` forgets: the normalisation of strings
and keys, the order of members, and which of several members with one key was written last. -/
theorem canon_injective {nfc : Str → Str} (hn : NfcOk nfc) (v w : JVal) (hv : validJ v = true) (hw : validJ w = true)
    (b : Bytes) (h1 : canon nfc v = some b) (h2 : canon nfc w = some b) : nrm nfc v = nrm nfc w :=
  (render_inj (nrm nfc v) (nrm nfc w) b b [] [] (validJ_nrm hn v hv) (validJ_nrm hn w hw)
    (canon_render nfc v b h1) (canon_render nfc w b h2) term_nil term_nil rfl).1

/-- and conversely: values with the same normal form have the same canonical form -/
theorem canon_eq_of_nrm_eq (nfc : Str → Str) (v w : JVal) (b c : Bytes) (h1 : canon nfc v = some b) (h2 : canon nfc w = some c)
    (h : nrm nfc v = nrm nfc w) : b = c := by
  have e1 := canon_render nfc v b h1
  have e2 := canon_render nfc w c h2
  rw [h] at e1
  rw [e1] at e2
  exact Option.some.inj e2

end Tough.CJson
