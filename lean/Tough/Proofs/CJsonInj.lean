import Tough.Proofs.CJsonCanon
namespace Tough.CJson

/-! ## The canonical form can be read back: byte-level lemmas

Everything needed to show that the canonical form of a value determines the value (up to string
normalisation, member order and the resolution of duplicate members, which is all `canon` forgets):
decimal digits, UTF-8, the two escapes, and the framing of strings, arrays and objects. -/

/-- two decompositions of one list into a `p`-prefix and a rest that does not start with a `p`
element coincide -/
theorem span_unique {p : Nat → Bool} (a b r1 r2 : Bytes)
    (ha : ∀ x ∈ a, p x = true) (hb : ∀ x ∈ b, p x = true)
    (h1 : ∀ x, r1.head? = some x → p x = false) (h2 : ∀ x, r2.head? = some x → p x = false)
    (h : a ++ r1 = b ++ r2) : a = b ∧ r1 = r2 := by
  induction a generalizing b with
  | nil =>
    cases b with
    | nil => exact ⟨rfl, by simpa using h⟩
    | cons y ys =>
      exfalso
      simp only [List.nil_append, List.cons_append] at h
      have := h1 y (by rw [h]; rfl)
      rw [hb y (List.mem_cons_self ..)] at this
      cases this
  | cons x xs ih =>
    cases b with
    | nil =>
      exfalso
      simp only [List.nil_append, List.cons_append] at h
      have := h2 x (by rw [← h]; rfl)
      rw [ha x (List.mem_cons_self ..)] at this
      cases this
    | cons y ys =>
      simp only [List.cons_append, List.cons.injEq] at h
      obtain ⟨hxy, hrest⟩ := h
      have := ih ys (fun z hz => ha z (List.mem_cons_of_mem _ hz)) (fun z hz => hb z (List.mem_cons_of_mem _ hz)) hrest
      exact ⟨by rw [hxy, this.1], this.2⟩

def isDigitB (b : Nat) : Bool := decide (48 ≤ b) && decide (b ≤ 57)

theorem natBytes_digits (n : Nat) : ∀ b ∈ natBytes n, isDigitB b = true := by
  intro b hb
  simp only [natBytes, List.mem_map] at hb
  obtain ⟨c, hc, rfl⟩ := hb
  have := Nat.isDigit_of_mem_toDigits (b := 10) (by decide) (by decide) hc
  simp only [Char.isDigit, Bool.and_eq_true, decide_eq_true_eq] at this
  simp only [isDigitB, Bool.and_eq_true, decide_eq_true_eq]
  have h1 : c.toNat = c.val.toNat := rfl
  obtain ⟨a1, a2⟩ := this
  have b1 : ('0' : Char).val.toNat ≤ c.val.toNat := UInt32.le_iff_toNat_le.mp a1
  have b2 : c.val.toNat ≤ ('9' : Char).val.toNat := UInt32.le_iff_toNat_le.mp a2
  have e0 : ('0' : Char).val.toNat = 48 := rfl
  have e9 : ('9' : Char).val.toNat = 57 := rfl
  omega

theorem natBytes_ne_nil (n : Nat) : natBytes n ≠ [] := by
  simp only [natBytes, ne_eq, List.map_eq_nil_iff]
  exact Nat.toDigits_ne_nil

theorem natBytes_inj {n m : Nat} (h : natBytes n = natBytes m) : n = m := by
  simp only [natBytes] at h
  have inj : ∀ (l1 l2 : List Char), l1.map Char.toNat = l2.map Char.toNat → l1 = l2 := by
    intro l1
    induction l1 with
    | nil => intro l2 hh; cases l2 with | nil => rfl | cons _ _ => simp at hh
    | cons a as ih =>
      intro l2 hh
      cases l2 with
      | nil => simp at hh
      | cons b bs =>
        simp only [List.map_cons, List.cons.injEq] at hh
        rw [Char.toNat_inj.mp hh.1, ih bs hh.2]
  have : Nat.toDigits 10 n = Nat.toDigits 10 m := inj _ _ h
  have e := congrArg (fun l => Nat.ofDigitChars 10 l 0) this
  simpa using e

/-- a byte string does not start with a decimal digit -/
def NoDigitHead (r : Bytes) : Prop := ∀ x, r.head? = some x → isDigitB x = false

theorem intBytes_unique (i j : Int) (r1 r2 : Bytes) (h1 : NoDigitHead r1) (h2 : NoDigitHead r2)
    (h : intBytes i ++ r1 = intBytes j ++ r2) : i = j ∧ r1 = r2 := by
  unfold intBytes at h
  have key : ∀ n m : Nat, natBytes n ++ r1 = natBytes m ++ r2 → n = m ∧ r1 = r2 := by
    intro n m hh
    have := span_unique (p := isDigitB) _ _ r1 r2 (natBytes_digits n) (natBytes_digits m) h1 h2 hh
    exact ⟨natBytes_inj this.1, this.2⟩
  have headDigit : ∀ n : Nat, ∃ d rest, natBytes n = d :: rest ∧ isDigitB d = true := by
    intro n
    cases hn : natBytes n with
    | nil => exact absurd hn (natBytes_ne_nil n)
    | cons d rest => exact ⟨d, rest, rfl, natBytes_digits n d (by rw [hn]; exact List.mem_cons_self ..)⟩
  by_cases hi : i < 0
  · by_cases hj : j < 0
    · simp only [hi, hj, ↓reduceIte, List.cons_append, List.cons.injEq, true_and] at h
      obtain ⟨e, er⟩ := key _ _ h
      exact ⟨by omega, er⟩
    · exfalso
      simp only [hi, hj, ↓reduceIte, List.cons_append] at h
      obtain ⟨d, rest, hd, hdig⟩ := headDigit j.natAbs
      rw [hd] at h
      simp only [List.cons_append, List.cons.injEq] at h
      rw [← h.1] at hdig
      revert hdig; decide
  · by_cases hj : j < 0
    · exfalso
      simp only [hi, hj, ↓reduceIte, List.cons_append] at h
      obtain ⟨d, rest, hd, hdig⟩ := headDigit i.natAbs
      rw [hd] at h
      simp only [List.cons_append, List.cons.injEq] at h
      rw [h.1] at hdig
      revert hdig; decide
    · simp only [hi, hj, ↓reduceIte] at h
      obtain ⟨e, er⟩ := key _ _ h
      exact ⟨by omega, er⟩

/-! ### UTF-8 is a prefix code -/

theorem utf8_cases (c : Nat) :
    (c < 0x80 ∧ utf8 c = [c]) ∨
    (0x80 ≤ c ∧ c < 0x800 ∧ utf8 c = [0xC0 + c / 64, 0x80 + c % 64]) ∨
    (0x800 ≤ c ∧ c < 0x10000 ∧ utf8 c = [0xE0 + c / 4096, 0x80 + (c / 64) % 64, 0x80 + c % 64]) ∨
    (0x10000 ≤ c ∧ utf8 c = [0xF0 + c / 262144, 0x80 + (c / 4096) % 64, 0x80 + (c / 64) % 64, 0x80 + c % 64]) := by
  by_cases h1 : c < 0x80
  · exact Or.inl ⟨h1, utf8_1 h1⟩
  · by_cases h2 : c < 0x800
    · exact Or.inr (Or.inl ⟨by omega, h2, utf8_2 h1 h2⟩)
    · by_cases h3 : c < 0x10000
      · exact Or.inr (Or.inr (Or.inl ⟨by omega, h3, utf8_3 h2 h3⟩))
      · exact Or.inr (Or.inr (Or.inr ⟨by omega, utf8_4 h3⟩))

theorem utf8_prefix_free {c d : Nat} (hc : c < 0x110000) (hd : d < 0x110000) (X Y : Bytes)
    (h : utf8 c ++ X = utf8 d ++ Y) : c = d ∧ X = Y := by
  rcases utf8_cases c with ⟨c1, ec⟩ | ⟨c1, c2, ec⟩ | ⟨c1, c2, ec⟩ | ⟨c1, ec⟩ <;>
  rcases utf8_cases d with ⟨d1, ed⟩ | ⟨d1, d2, ed⟩ | ⟨d1, d2, ed⟩ | ⟨d1, ed⟩ <;>
  · rw [ec, ed] at h
    simp only [List.cons_append, List.nil_append, List.cons.injEq] at h
    first
      | exact ⟨by omega, by first | exact h.2 | exact h.2.2 | exact h.2.2.2 | exact h.2.2.2.2⟩
      | (exfalso; omega)
      | (exfalso; obtain ⟨h0, _⟩ := h; omega)

/-- the first byte of an encoded scalar is neither a quotation mark nor a backslash unless the scalar is -/
theorem utf8_head (c : Nat) : ∃ b rest, utf8 c = b :: rest ∧ (c < 0x80 → b = c) ∧ (0x80 ≤ c → 0x80 ≤ b) := by
  rcases utf8_cases c with ⟨c1, ec⟩ | ⟨c1, c2, ec⟩ | ⟨c1, c2, ec⟩ | ⟨c1, ec⟩
  · exact ⟨_, _, ec, fun _ => rfl, fun h => by omega⟩
  · exact ⟨_, _, ec, fun h => by omega, fun _ => by omega⟩
  · exact ⟨_, _, ec, fun h => by omega, fun _ => by omega⟩
  · exact ⟨_, _, ec, fun h => by omega, fun _ => by omega⟩

/-! ### string content: `escStr` followed by the closing quotation mark -/

theorem escChar_cases (c : Nat) :
    ((c = 0x22 ∨ c = 0x5C) ∧ escChar c = [0x5C, c]) ∨ (c ≠ 0x22 ∧ c ≠ 0x5C ∧ escChar c = utf8 c) := by
  unfold escChar
  by_cases h1 : c = 0x22
  · subst h1; exact Or.inl ⟨Or.inl rfl, rfl⟩
  · by_cases h2 : c = 0x5C
    · subst h2; exact Or.inl ⟨Or.inr rfl, rfl⟩
    · right
      refine ⟨h1, h2, ?_⟩
      have : (c == 0x22 || c == 0x5C) = false := by simp [h1, h2]
      simp [this]

/-- the head byte of an escaped scalar: `\` exactly for the two escaped scalars, never `"` -/
theorem escChar_head (c : Nat) : ∃ b rest, escChar c = b :: rest ∧ b ≠ 0x22 ∧ (b = 0x5C ↔ (c = 0x22 ∨ c = 0x5C)) := by
  rcases escChar_cases c with ⟨hc, e⟩ | ⟨h1, h2, e⟩
  · exact ⟨0x5C, [c], e, by decide, by simp [hc]⟩
  · obtain ⟨b, rest, eb, hlo, hhi⟩ := utf8_head c
    refine ⟨b, rest, by rw [e, eb], ?_, ?_⟩
    · by_cases hc : c < 0x80
      · rw [hlo hc]; exact h1
      · have := hhi (by omega); omega
    · constructor
      · intro hb
        exfalso
        by_cases hc : c < 0x80
        · rw [hlo hc] at hb; exact h2 hb
        · have := hhi (by omega); omega
      · intro hh
        rcases hh with hh | hh
        · exact absurd hh h1
        · exact absurd hh h2

theorem escChar_prefix_free {c d : Nat} (hc : c < 0x110000) (hd : d < 0x110000) (X Y : Bytes)
    (h : escChar c ++ X = escChar d ++ Y) : c = d ∧ X = Y := by
  rcases escChar_cases c with ⟨hcq, ec⟩ | ⟨c1, c2, ec⟩ <;> rcases escChar_cases d with ⟨hdq, ed⟩ | ⟨d1, d2, ed⟩
  · rw [ec, ed] at h
    simp only [List.cons_append, List.nil_append, List.cons.injEq, true_and] at h
    exact h
  · exfalso
    obtain ⟨b, rest, eb, _, hiff⟩ := escChar_head d
    rw [ec] at h
    rw [eb] at h
    simp only [List.cons_append, List.cons.injEq] at h
    have := hiff.mp h.1.symm
    rcases this with e | e
    · exact d1 e
    · exact d2 e
  · exfalso
    obtain ⟨b, rest, eb, _, hiff⟩ := escChar_head c
    rw [ed] at h
    rw [eb] at h
    simp only [List.cons_append, List.cons.injEq] at h
    have := hiff.mp h.1
    rcases this with e | e
    · exact c1 e
    · exact c2 e
  · rw [ec, ed] at h
    exact utf8_prefix_free hc hd X Y h

/-- string content up to the closing quotation mark can be read back -/
theorem escStr_unique (s t : Str) (r1 r2 : Bytes) (hs : ∀ c ∈ s, c < 0x110000) (ht : ∀ c ∈ t, c < 0x110000)
    (h : escStr s ++ 0x22 :: r1 = escStr t ++ 0x22 :: r2) : s = t ∧ r1 = r2 := by
  induction s generalizing t with
  | nil =>
    cases t with
    | nil => simpa [escStr] using h
    | cons d ds =>
      exfalso
      obtain ⟨b, rest, eb, hq, _⟩ := escChar_head d
      simp only [escStr, List.flatMap_nil, List.nil_append, List.flatMap_cons, eb, List.cons_append, List.cons.injEq] at h
      exact hq h.1.symm
  | cons c cs ih =>
    cases t with
    | nil =>
      exfalso
      obtain ⟨b, rest, eb, hq, _⟩ := escChar_head c
      simp only [escStr, List.flatMap_nil, List.nil_append, List.flatMap_cons, eb, List.cons_append, List.cons.injEq] at h
      exact hq h.1
    | cons d ds =>
      simp only [escStr, List.flatMap_cons, List.append_assoc] at h
      have := escChar_prefix_free (hs c (List.mem_cons_self ..)) (ht d (List.mem_cons_self ..)) _ _ h
      obtain ⟨e1, e2⟩ := this
      have := ih ds (fun x hx => hs x (List.mem_cons_of_mem _ hx)) (fun x hx => ht x (List.mem_cons_of_mem _ hx)) e2
      exact ⟨by rw [e1, this.1], this.2⟩

theorem quote_unique (s t : Str) (r1 r2 : Bytes) (hs : ∀ c ∈ s, c < 0x110000) (ht : ∀ c ∈ t, c < 0x110000)
    (h : quote s ++ r1 = quote t ++ r2) : s = t ∧ r1 = r2 := by
  simp only [quote, List.cons_append, List.append_assoc, List.cons.injEq, true_and, List.nil_append] at h
  exact escStr_unique s t r1 r2 hs ht h

end Tough.CJson
