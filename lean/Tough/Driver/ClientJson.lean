/- JSON wire format of the client model (see harness/world/src/client.rs). -/
import Tough.Driver.Util
import Tough.Model.Client
open Lean Tough.Driver Tough.Client Tough.Sig

namespace Tough.Driver.ClientJson

def optNat (j : Json) : Except String (Option Nat) :=
  if j.isNull then pure none else do pure (some (← j.getNat?))

def getInt (j : Json) (k : String) : Except String Int := do (← j.getObjVal? k).getInt?
def getNat (j : Json) (k : String) : Except String Nat := do (← j.getObjVal? k).getNat?
def getBool (j : Json) (k : String) : Except String Bool := do (← j.getObjVal? k).getBool?
def getArr (j : Json) (k : String) : Except String (List Json) := do pure (← (← j.getObjVal? k).getArr?).toList
def getNats (j : Json) (k : String) : Except String (List Nat) := do getNatArr (← j.getObjVal? k)

def parseSig (j : Json) : Except String Sig := do
  pure { keyid := ← getNat j "k", signer := ← optNat (← j.getObjVal? "s"), msg := ← getNat j "m" }

def parseSigs (j : Json) : Except String (List Sig) := do (← getArr j "sigs").mapM parseSig

def parseRK (j : Json) : Except String (Option RoleKeys) :=
  if j.isNull then pure none else do
    pure (some { keyids := ← getNats j "ids", threshold := ← getNat j "thr" })

def parseRoot (j : Json) : Except String Root := do
  let roles ← j.getObjVal? "roles"
  pure {
    version := ← getNat j "v", expires := ← getInt j "exp", consistent := ← getBool j "cs",
    keys := ← getNats j "keys",
    roleRoot := ← parseRK (← roles.getObjVal? "root"),
    roleSnapshot := ← parseRK (← roles.getObjVal? "snapshot"),
    roleTargets := ← parseRK (← roles.getObjVal? "targets"),
    roleTimestamp := ← parseRK (← roles.getObjVal? "timestamp"),
    msg := ← getNat j "m", sigs := ← parseSigs j }

def parseMeta (j : Json) : Except String Meta := do
  pure { version := ← getNat j "v", length := ← optNat (← j.getObjVal? "len"), hash := ← optNat (← j.getObjVal? "hash") }

def parseTimestamp (j : Json) : Except String Timestamp := do
  let sm ← j.getObjVal? "snap"
  let snap ← if sm.isNull then pure none else do pure (some (← parseMeta sm))
  pure { version := ← getNat j "v", expires := ← getInt j "exp", snapshotMeta := snap,
         msg := ← getNat j "m", sigs := ← parseSigs j }

def parseMetaKey (j : Json) : Except String MetaKey :=
  match j with
  | .str "targets" => pure .targets
  | _ => do pure (.role (← getNat j "role"))

def parseSnapshot (j : Json) : Except String Snapshot := do
  let ms ← (← getArr j "meta").mapM fun e => do
    let pr ← e.getArr?
    if pr.size != 2 then throw "meta entry must be a pair"
    pure (← parseMetaKey pr[0]!, ← parseMeta pr[1]!)
  pure { version := ← getNat j "v", expires := ← getInt j "exp", metas := ms,
         msg := ← getNat j "m", sigs := ← parseSigs j }

def parseDRole (j : Json) : Except String DRole := do
  pure { name := ← getNat j "name", keyids := ← getNats j "ids", threshold := ← getNat j "thr",
         paths := ← getNats j "paths" }

def parseTargets (j : Json) : Except String TargetsDoc := do
  let es ← (← getArr j "entries").mapM fun e => do
    let pr ← e.getArr?
    if pr.size != 2 then throw "entry must be a pair"
    let te : TEntry := { length := ← getNat pr[1]! "len", hash := ← getNat pr[1]! "hash" }
    pure (← pr[0]!.getNat?, te)
  let dj ← j.getObjVal? "deleg"
  let deleg ← if dj.isNull then pure none else do
    pure (some ({ keys := ← getNats dj "keys", roles := ← (← getArr dj "roles").mapM parseDRole } : Deleg))
  pure { version := ← getNat j "v", expires := ← getInt j "exp", entries := es, deleg := deleg,
         msg := ← getNat j "m", sigs := ← parseSigs j }

def parseContent (j : Json) : Except String Content :=
  match j with
  | .str "garbage" => pure .garbage
  | _ => do
    if let some r := optField j "root" then return .root (← parseRoot r)
    if let some r := optField j "timestamp" then return .timestamp (← parseTimestamp r)
    if let some r := optField j "snapshot" then return .snapshot (← parseSnapshot r)
    if let some r := optField j "targets" then return .targets (← parseTargets r)
    throw "bad content"

def parseFault (j : Json) : Except String Fault :=
  if j.isNull then pure .none else do
    if let some p := optField j "nf" then return .notFoundAt (← p.getNat?)
    if let some p := optField j "other" then return .otherAt (← p.getNat?)
    throw "bad fault"

def parseResp (j : Json) : Except String Resp :=
  match j with
  | .str "notfound" => pure .notFound
  | .str "openerr" => pure .openErr
  | _ => do
    let f ← j.getObjVal? "file"
    pure (.file { content := ← parseContent (← f.getObjVal? "c"), len := ← optNat (← f.getObjVal? "len"),
                  hash := ← getNat f "hash", fault := ← parseFault (← f.getObjVal? "fault") })

def parseName (j : Json) : Except String FileName :=
  match j with
  | .str "timestamp" => pure .timestamp
  | _ => do
    if let some v := optField j "root" then return .rootV (← v.getNat?)
    if let some v := optField j "snapshot" then return .snapshot (← optNat v)
    if let some v := optField j "targets" then return .targets (← optNat v)
    if let some v := optField j "role" then
      let pr ← v.getArr?
      if pr.size != 2 then throw "role name must be a pair"
      return .role (← pr[0]!.getNat?) (← optNat pr[1]!)
    throw "bad file name"

def parseServer (j : Json) : Except String Server := do
  (← j.getArr?).toList.mapM fun e => do
    let pr ← e.getArr?
    if pr.size != 2 then throw "server entry must be a pair"
    pure (← parseName pr[0]!, ← parseResp pr[1]!)

def parseLimits (j : Json) : Except String Limits := do
  pure { maxRootSize := ← getNat j "root", maxTargetsSize := ← getNat j "targets",
         maxTimestampSize := ← getNat j "timestamp", maxSnapshotSize := ← getNat j "snapshot",
         maxRootUpdates := ← getNat j "updates" }

structure CycleIn where
  cfg : Config
  server : Server
  shipped : Option Root
  reads : List (Int × Nat) := []

def parseCycle (j : Json) : Except String CycleIn := do
  let c ← j.getObjVal? "cfg"
  let cfg : Config := { limits := ← parseLimits (← c.getObjVal? "limits"), safe := ← getBool c "safe", now := ← getInt c "now" }
  let sj ← j.getObjVal? "shipped"
  let shipped ← if sj.isNull then pure none else do pure (some (← parseRoot sj))
  let reads ← match optField j "reads" with
    | some r => do (← r.getArr?).toList.mapM fun x => do pure (← getInt x "now", ← getNat x "name")
    | none => pure []
  pure { cfg := cfg, server := ← parseServer (← j.getObjVal? "server"), shipped := shipped, reads := reads }

/-! rendering -/

def optLabel : Option Nat → String
  | some v => toString v
  | none => "-"

def nameLabel : FileName → String
  | .rootV n => s!"root:{n}"
  | .timestamp => "timestamp"
  | .snapshot v => s!"snapshot:{optLabel v}"
  | .targets v => s!"targets:{optLabel v}"
  | .role r v => s!"role:{r}:{optLabel v}"

def roleLabel : RoleType → String
  | .root => "root" | .snapshot => "snapshot" | .targets => "targets" | .timestamp => "timestamp"

def errTag : Err → String
  | .parseShipped => "parseShipped"
  | .verifyShipped => "verifyShipped"
  | .maxUpdates => "maxUpdates"
  | .transport _ => "transport"
  | .parse r => s!"parse:{roleLabel r}"
  | .verify r => s!"verify:{roleLabel r}"
  | .older r => s!"older:{roleLabel r}"
  | .expired r => s!"expired:{roleLabel r}"
  | .clock => "clock"
  | .metaMissing r => s!"metaMissing:{roleLabel r}"
  | .versionMismatch r => s!"versionMismatch:{roleLabel r}"
  | .roleNotInMeta => "roleNotInMeta"
  | .duplicateRole => "duplicateRole"
  | .invalidPath => "invalidPath"
  | .fuel => "fuel"

def reqs (st : St) : List String :=
  (st.log.reverse.filterMap fun e => match e with | .req f => some (nameLabel f) | _ => none)

mutual
def tgtRoles : Tgt → List Json
  | .mk _ c => rolesRoles c
def rolesRoles : Roles → List Json
  | .nil => []
  | .cons r t rest => Json.arr #[(r.name : Json), ((Tgt.doc t).version : Json)] :: (tgtRoles t ++ rolesRoles rest)
end

def limits (st : St) : List Nat :=
  (st.log.reverse.filterMap fun e => match e with | .limit n => some n | _ => none)

def slotJson {α} (ver : α → Nat) : Slot α → Json
  | .absent => Json.null
  | .garbage => "garbage"
  | .doc d => (ver d : Json)

def dsJson (ds : Datastore) : Json :=
  Json.mkObj [("ts", slotJson (·.version) ds.ts), ("snap", slotJson (·.version) ds.snap),
              ("tgt", slotJson (·.version) ds.tgt)]

/-- what one cycle of the model shows, in the vocabulary of the harness observation -/
def cycleObs (r : Except Err View) (st : St) : Json :=
  let common : List (String × Json) := [("reqs", Json.arr ((reqs st).map Json.str).toArray),
    ("limits", natArr (limits st)), ("ds", dsJson st.ds)]
  match r with
  | .ok v => Json.mkObj ([("res", Json.str "ok"),
      ("versions", Json.arr #[(v.root.version : Json), (v.ts.version : Json), (v.snap.version : Json), ((Tgt.doc v.tgt).version : Json)]),
      ("roles", Json.arr (tgtRoles v.tgt).toArray)] ++ common)
  | .error e => Json.mkObj ([("res", Json.str (errTag e))] ++ common)

end Tough.Driver.ClientJson
