/- The wire encoding of JSON values with member order and duplicates (shared by the C12 driver):
  "n" | {"b":bool} | {"i":"<decimal>"} | "f" | {"s":[cp,…]} | {"a":[v,…]} | {"o":[[[cp,…],v],…]} -/
import Tough.Driver.Util
import Tough.Model.CJson
open Lean Tough.Driver Tough.CJson

namespace Tough.Driver

partial def parseWire (j : Json) : Except String JVal := do
  match j with
  | .str "n" => pure .null
  | .str "f" => pure .float
  | _ =>
    if let some b := optField j "b" then return .bool (← b.getBool?)
    if let some i := optField j "i" then
      let s ← i.getStr?
      match s.toInt? with
      | some n => return .int n
      | none => throw s!"bad int {s}"
    if let some s := optField j "s" then return .str (← getNatArr s)
    if let some a := optField j "a" then
      let xs ← a.getArr?
      let vs ← xs.toList.mapM parseWire
      return .arr (vs.foldr (fun v acc => .cons v acc) .nil)
    if let some o := optField j "o" then
      let ms ← o.getArr?
      let kvs ← ms.toList.mapM fun m => do
        let pr ← m.getArr?
        if pr.size != 2 then throw "member must be a pair"
        let k ← getNatArr pr[0]!
        let v ← parseWire pr[1]!
        pure (k, v)
      return .obj (kvs.foldr (fun kv acc => .cons kv.1 kv.2 acc) .nil)
    throw "bad value"

end Tough.Driver
