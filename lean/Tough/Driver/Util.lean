/- Shared plumbing for the line-protocol drivers: one JSON object per line in, one per line out. -/
import Lean.Data.Json
open Lean

namespace Tough.Driver

def getNatArr (j : Json) : Except String (List Nat) := do
  let a ← j.getArr?
  a.toList.mapM (·.getNat?)

def natArr (l : List Nat) : Json := Json.arr (l.map (fun (n : Nat) => (n : Json))).toArray

def hexDigit (n : Nat) : Char := if n < 10 then Char.ofNat (48 + n) else Char.ofNat (87 + n)
def toHex (bs : List Nat) : String :=
  String.ofList (bs.flatMap fun b => [hexDigit (b / 16), hexDigit (b % 16)])

def hexVal (c : Char) : Option Nat :=
  if '0' ≤ c ∧ c ≤ '9' then some (c.toNat - 48)
  else if 'a' ≤ c ∧ c ≤ 'f' then some (c.toNat - 87)
  else if 'A' ≤ c ∧ c ≤ 'F' then some (c.toNat - 55)
  else none

def fromHexAux : List Char → Option (List Nat)
  | [] => some []
  | a :: b :: rest => do
    let x ← hexVal a; let y ← hexVal b; let r ← fromHexAux rest
    pure ((x * 16 + y) :: r)
  | _ => none
def fromHex (s : String) : Option (List Nat) := fromHexAux s.toList

def optField (j : Json) (k : String) : Option Json := (j.getObjVal? k).toOption

/-- Reads stdin line by line; for each non-empty line parses JSON, applies `handle`, prints the
result with the case `id` attached. A handler error is an internal error of the driver: it is
printed as `{"id":…, "internal_error":…}` and the runner aborts on it (never a violation). -/
partial def loop (h : IO.FS.Stream) (out : IO.FS.Stream) (handle : Json → Except String Json) : IO Unit := do
  let line ← h.getLine
  if line.isEmpty then return ()
  let t := line.trimAscii.toString
  if t.isEmpty then loop h out handle else
  match Json.parse t with
  | .error e => out.putStrLn (Json.mkObj [("internal_error", Json.str s!"parse: {e}")]).compress
  | .ok j =>
    let id := (optField j "id").getD Json.null
    match handle j with
    | .ok r => out.putStrLn (r.setObjVal! "id" id).compress
    | .error e => out.putStrLn (Json.mkObj [("id", id), ("internal_error", Json.str e)]).compress
  loop h out handle

def runDriver (handle : Json → Except String Json) : IO Unit := do
  loop (← IO.getStdin) (← IO.getStdout) handle

end Tough.Driver
