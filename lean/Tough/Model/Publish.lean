/-
What `RepositoryEditor::sign` + `SignedRepository::write` put on disk (C10), over the document types of
the client model: the files, their names, and the snapshot / timestamp entries that describe them.
Transcribed from `tough/src/editor/mod.rs` (`sign`, `build_snapshot`, `snapshot_meta`, `build_timestamp`,
`timestamp_meta`) and `tough/src/editor/signed.rs` (`SignedRole::from_signed`, `write`,
`SignedDelegatedTargets::write`), `tough/src/schema/mod.rs` (`Role::filename`).
-/
import Tough.Model.Client
import Tough.Model.Cache
namespace Tough.Publish
open Tough.Sig Tough.Client Tough.Cache

/-- the serialised form of a document, as far as the metadata speaks about it: `SignedRole::from_signed`
serialises once, and takes length and SHA-256 from that very buffer, which `write` then writes -/
structure Ser where
  len : Content → Nat
  dig : Content → Nat

/-- the written file: the buffer, complete, nothing else -/
def fileOf (ser : Ser) (c : Content) : File := ⟨c, some (ser.len c), ser.dig c, .none⟩

/-- `snapshot_meta` / `timestamp_meta`: version of the document, length and digest of its buffer -/
def metaOf (ser : Ser) (version : Nat) (c : Content) : Meta := ⟨version, some (ser.len c), some (ser.dig c)⟩

mutual
/-- `Targets::signed_delegated_targets`: every delegated role of the tree with its document -/
def tgtNodes : Tgt → List (DRole × Tgt)
  | .mk _ c => rolesNodes c
def rolesNodes : Roles → List (DRole × Tgt)
  | .nil => []
  | .cons r t rest => (r, t) :: (tgtNodes t ++ rolesNodes rest)
end

def nodeFile (ser : Ser) (cs : Bool) (p : DRole × Tgt) : FileName × Resp :=
  (.role p.1.name (versioned cs (Tgt.doc p.2).version), .file (fileOf ser (.targets (Tgt.doc p.2))))

def nodeMeta (ser : Ser) (p : DRole × Tgt) : MetaKey × Meta :=
  (.role p.1.name, metaOf ser (Tgt.doc p.2).version (.targets (Tgt.doc p.2)))

/-- what the editor holds when `sign` has built and signed every role -/
structure Signed where
  root : Root
  /-- the targets role and, attached, every delegated role (documents with their signatures) -/
  tree : Tgt
  snapVersion : Nat
  snapExpires : Int
  snapMsg : Msg
  snapSigs : List Sig
  tsVersion : Nat
  tsExpires : Int
  tsMsg : Msg
  tsSigs : List Sig

/-- `build_snapshot`: `targets.json` and one entry per delegated role -/
def Signed.snapshot (ser : Ser) (p : Signed) : Snapshot :=
  ⟨p.snapVersion, p.snapExpires,
   (.targets, metaOf ser (Tgt.doc p.tree).version (.targets (Tgt.doc p.tree))) :: (tgtNodes p.tree).map (nodeMeta ser),
   p.snapMsg, p.snapSigs⟩

/-- `build_timestamp`: the entry for `snapshot.json` -/
def Signed.timestamp (ser : Ser) (p : Signed) : Timestamp :=
  ⟨p.tsVersion, p.tsExpires, some (metaOf ser p.snapVersion (.snapshot (p.snapshot ser))), p.tsMsg, p.tsSigs⟩

/-- `SignedRepository::write`: the directory as the server a client fetches from -/
def Signed.server (ser : Ser) (p : Signed) : Server :=
  [(.rootV p.root.version, .file (fileOf ser (.root p.root))),
   (.targets (versioned p.root.consistent (Tgt.doc p.tree).version), .file (fileOf ser (.targets (Tgt.doc p.tree)))),
   (.snapshot (versioned p.root.consistent p.snapVersion), .file (fileOf ser (.snapshot (p.snapshot ser)))),
   (.timestamp, .file (fileOf ser (.timestamp (p.timestamp ser))))] ++
  (tgtNodes p.tree).map (nodeFile ser p.root.consistent)

mutual
/-- the tree is complete and signed: every role a document delegates to is attached, in order, with a
document that meets the delegation's keys and threshold (what `SignedRole::new` / `add_role` /
`update_delegated_targets` guarantee, C10.a–c) -/
def TgtOk : Tgt → Prop
  | .mk doc children =>
    match doc.deleg with
    | none => children = .nil
    | some d => RolesOk d d.roles children
def RolesOk (d : Deleg) : List DRole → Roles → Prop
  | [], .nil => True
  | r :: rs, .cons r' t rest => r = r' ∧ delegVerify d r.name (Tgt.doc t).msg (Tgt.doc t).sigs = true ∧ TgtOk t ∧ RolesOk d rs rest
  | _, _ => False
end

end Tough.Publish
