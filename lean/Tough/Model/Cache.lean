/-
`Repository::cache` (C19): which files a loaded repository copies, and the copy seen as a server.
Transcribed from `tough/src/cache.rs`; bytes are those of the source (a file is copied as it is, at
most `limit` bytes — the limits are those of the update cycle and are not modelled again here).
-/
import Tough.Model.Client
namespace Tough.Cache
open Tough.Client

mutual
/-- `Targets::role_names`: delegated roles of the loaded tree, each followed by its own delegations -/
def tgtRoleNames : Tgt → List Nat
  | .mk _ c => rolesRoleNames c
def rolesRoleNames : Roles → List Nat
  | .nil => []
  | .cons r t rest => r.name :: (tgtRoleNames t ++ rolesRoleNames rest)
end

/-- `delegated_filename`: under consistent snapshots the version listed in the snapshot (a role the
snapshot does not list is skipped) -/
def roleFile (v : View) (r : Nat) : Option FileName :=
  if v.root.consistent then (v.snap.find (.role r)).map fun m => .role r (some m.version)
  else some (.role r none)

/-- the metadata files `cache_metadata_impl` copies, in its order, then the root chain (newest first) -/
def metaFiles (v : View) (chain : Bool) : List FileName :=
  [FileName.snapshot (versioned v.root.consistent v.snap.version),
   FileName.targets (versioned v.root.consistent (Tgt.doc v.tgt).version),
   FileName.timestamp] ++
  (tgtRoleNames v.tgt).filterMap (roleFile v) ++
  (if chain then (List.range v.root.version).reverse.map (fun i => FileName.rootV (i + 1)) else [])

/-- a file can be copied: the source serves it, completely -/
def copyable (srv : Server) (f : FileName) : Bool :=
  match srv.get f with
  | .file x => x.fault == .none && x.len.isSome
  | _ => false

/-- the metadata directory of the copy as a server: the copied files, nothing else -/
def cachedServer (srv : Server) (files : List FileName) : Server :=
  files.filterMap fun f => match srv.get f with
    | .file x => some (f, Resp.file x)
    | _ => none

/-- the names `cache` saves: the named subset, or every name listed anywhere in the loaded tree -/
def cachedTargets (v : View) (subset : Option (List Nat)) : List Nat :=
  match subset with
  | some s => s
  | none => (Tgt.names v.tgt).eraseDups

end Tough.Cache
