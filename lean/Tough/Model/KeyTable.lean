/-
M2 (part) — key identifiers and key tables.  Model of `de::deserialize_keys` (schema/de.rs:
`validate_and_insert_entry`), `Decoded<Hex>` (decoded.rs: `hex::decode`, equality/hash on the
decoded bytes) and `Key::key_id` (key.rs) as an abstract function of the key.  Import-free.
-/
namespace Tough.KeyTable

abbrev Bytes := List Nat

def hexVal (c : Char) : Option Nat :=
  if '0' ≤ c ∧ c ≤ '9' then some (c.toNat - 48)
  else if 'a' ≤ c ∧ c ≤ 'f' then some (c.toNat - 87)
  else if 'A' ≤ c ∧ c ≤ 'F' then some (c.toNat - 55)
  else none

/-- `hex::decode`: two digits per byte, either case, odd length or other characters fail -/
def decodeHex : List Char → Option Bytes
  | [] => some []
  | [_] => none
  | a :: b :: rest =>
    match hexVal a, hexVal b, decodeHex rest with
    | some x, some y, some r => some ((x * 16 + y) :: r)
    | _, _, _ => none

def hexChar (n : Nat) : Char := if n < 10 then Char.ofNat (48 + n) else Char.ofNat (87 + n)

/-- `hex::encode` (lower case) -/
def encodeHex : Bytes → List Char
  | [] => []
  | b :: rest => hexChar (b / 16) :: hexChar (b % 16) :: encodeHex rest

inductive Err where
  | hex             -- the identifier is not a hex string
  | invalidKeyId    -- the identifier is not the digest of the key
  | duplicateKeyId
  deriving DecidableEq, Repr

/-- `deserialize_keys`: members in document order; `kid k` is `k.key_id()` (SHA-256 of the canonical
form of the key); the table is keyed by the DECODED identifier -/
def parseKeys {κ : Type} (kid : κ → Bytes) : List (List Char × κ) → List (Bytes × κ) → Except Err (List (Bytes × κ))
  | [], table => .ok table
  | (idText, key) :: rest, table =>
    match decodeHex idText with
    | none => .error .hex
    | some id =>
      if id ≠ kid key then .error .invalidKeyId
      else if (table.lookup id).isSome then .error .duplicateKeyId
      else parseKeys kid rest (table ++ [(id, key)])

end Tough.KeyTable
