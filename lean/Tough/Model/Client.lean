/-
L2–L4 — documents, the served world, the datastore and the update cycle.
Model of `tough/src/lib.rs` (`Repository::load`, `load_root`, `load_timestamp`, `load_snapshot`,
`load_targets`, `load_delegations`, `check_expired`), `tough/src/datastore.rs`
(`bytes`/`create`/`remove`/`system_time`) and `tough/src/fetch.rs` + `io.rs` as far as the
result of reading a whole metadata file is concerned.  Import-free.

Conventions: identifiers (key ids, message identities, role names, target names, digests) are
`Nat`s; time is an `Int` (seconds); `&mut`/datastore effects are state passing (`St`), the state
is returned on failure too because the code persists files before later checks can fail.
`msg` of a document is the identity of the canonical form of its signed portion.
-/
import Tough.Model.Sig
namespace Tough.Client
open Tough.Sig

inductive RoleType where
  | root | snapshot | targets | timestamp
  deriving DecidableEq, Repr

structure Root where
  version : Nat
  expires : Int
  consistent : Bool
  /-- key ids present in the key table -/
  keys : List KeyId
  roleRoot : Option RoleKeys
  roleSnapshot : Option RoleKeys
  roleTargets : Option RoleKeys
  roleTimestamp : Option RoleKeys
  msg : Msg
  sigs : List Sig
  deriving DecidableEq, Repr

def Root.role (r : Root) : RoleType → Option RoleKeys
  | .root => r.roleRoot
  | .snapshot => r.roleSnapshot
  | .targets => r.roleTargets
  | .timestamp => r.roleTimestamp

structure Meta where
  version : Nat
  length : Option Nat
  hash : Option Nat
  deriving DecidableEq, Repr

structure Timestamp where
  version : Nat
  expires : Int
  /-- the `snapshot.json` entry of `meta` -/
  snapshotMeta : Option Meta
  msg : Msg
  sigs : List Sig
  deriving DecidableEq, Repr

inductive MetaKey where
  | targets                -- "targets.json"
  | role (name : Nat)      -- "<name>.json"
  deriving DecidableEq, Repr

structure Snapshot where
  version : Nat
  expires : Int
  metas : List (MetaKey × Meta)
  msg : Msg
  sigs : List Sig
  deriving DecidableEq, Repr

structure DRole where
  name : Nat
  keyids : List KeyId
  threshold : Nat
  /-- the target names (of the case's universe) that the role's path set matches -/
  paths : List Nat
  deriving DecidableEq, Repr

structure Deleg where
  keys : List KeyId
  roles : List DRole
  deriving DecidableEq, Repr

structure TEntry where
  length : Nat
  hash : Nat
  deriving DecidableEq, Repr

/-- a served targets document (top-level or delegated): children are separate files -/
structure TargetsDoc where
  version : Nat
  expires : Int
  entries : List (Nat × TEntry)
  deleg : Option Deleg
  msg : Msg
  sigs : List Sig
  deriving DecidableEq, Repr

/-! ### The served world -/

inductive FileName where
  | rootV (n : Nat)                        -- "<n>.root.json"
  | timestamp                              -- "timestamp.json"
  | snapshot (v : Option Nat)              -- "[<v>.]snapshot.json"
  | targets (v : Option Nat)               -- "[<v>.]targets.json"
  | role (name : Nat) (v : Option Nat)     -- "[<v>.]<enc name>.json"
  deriving DecidableEq, Repr

inductive Content where
  | root (r : Root)
  | timestamp (t : Timestamp)
  | snapshot (s : Snapshot)
  | targets (t : TargetsDoc)
  | garbage
  deriving DecidableEq, Repr

inductive Fault where
  | none
  | notFoundAt (pos : Nat)   -- an error item of kind FileNotFound after `pos` bytes
  | otherAt (pos : Nat)      -- an error item of kind Other after `pos` bytes
  deriving DecidableEq, Repr

structure File where
  content : Content
  /-- number of bytes the stream yields if read to the end; `none` = it never ends -/
  len : Option Nat
  /-- digest identity of those bytes -/
  hash : Nat
  fault : Fault
  deriving DecidableEq, Repr

inductive Resp where
  | notFound     -- `fetch` fails with FileNotFound
  | openErr      -- `fetch` fails with Other
  | file (f : File)
  deriving DecidableEq, Repr

abbrev Server := List (FileName × Resp)

def Server.get (srv : Server) (f : FileName) : Resp :=
  match srv.lookup f with
  | some r => r
  | none => .notFound

inductive FetchErr where
  | openNotFound | openOther | midNotFound | midOther | maxSize | hashMismatch
  deriving DecidableEq, Repr

/-- `fetch_max_size` / `fetch_sha256` followed by `into_vec`: the size adapter fails on the item
that crosses `limit`, a transport error item ends the stream where it occurs, the digest is
compared at the end of the stream. -/
def fetchFile (srv : Server) (name : FileName) (limit : Nat) (hash : Option Nat) : Except FetchErr Content :=
  match srv.get name with
  | .notFound => .error .openNotFound
  | .openErr => .error .openOther
  | .file f =>
    let faulted : Option FetchErr :=
      match f.fault with
      | .none => none
      | .notFoundAt pos => if pos ≤ limit then some .midNotFound else none
      | .otherAt pos => if pos ≤ limit then some .midOther else none
    match faulted with
    | some e => .error e
    | none =>
      match f.len with
      | none => .error .maxSize
      | some n =>
        if limit < n then .error .maxSize
        else match hash with
          | some h => if f.hash = h then .ok f.content else .error .hashMismatch
          | none => .ok f.content

/-! ### Datastore and state -/

inductive Slot (α : Type) where
  | absent
  | garbage      -- a file that does not parse
  | doc (d : α)
  deriving DecidableEq, Repr

structure Datastore where
  ts : Slot Timestamp := .absent
  snap : Slot Snapshot := .absent
  tgt : Slot TargetsDoc := .absent
  /-- `latest_known_time.json` (a file that does not parse is ignored, like an absent one) -/
  time : Option Int := none
  /-- `root.json`: the root the client ended step 1 with in its previous update on this datastore -/
  root : Slot Root := .absent
  deriving DecidableEq, Repr

inductive Ev where
  | req (f : FileName)
  | limit (n : Nat)        -- the size limit applied to the request logged just before
  | dsCreate (what : String) (after : Datastore)   -- `after`: the datastore once the operation is done
  | dsRemove (what : String) (after : Datastore)
  deriving DecidableEq, Repr

structure St where
  ds : Datastore
  log : List Ev := []      -- newest first
  deriving DecidableEq, Repr

structure Limits where
  maxRootSize : Nat
  maxTargetsSize : Nat
  maxTimestampSize : Nat
  maxSnapshotSize : Nat
  maxRootUpdates : Nat
  deriving DecidableEq, Repr

structure Config where
  limits : Limits
  /-- `ExpirationEnforcement::Safe` -/
  safe : Bool
  /-- the system clock during this operation -/
  now : Int
  deriving DecidableEq, Repr

inductive Err where
  | parseShipped | verifyShipped | maxUpdates
  | transport (r : RoleType) | parse (r : RoleType) | verify (r : RoleType) | older (r : RoleType)
  | expired (r : RoleType) | clock | metaMissing (r : RoleType) | versionMismatch (r : RoleType)
  | roleNotInMeta | duplicateRole | invalidPath | fuel
  deriving DecidableEq, Repr

/-- `Root::verify_role` for a document with message `m` and signatures `sigs` -/
def rootVerify (r : Root) (ty : RoleType) (m : Msg) (sigs : List Sig) : Bool :=
  match r.role ty with
  | none => false
  | some rk => verify r.keys rk m sigs

/-- `Delegations::verify_role(role, name)`: the first role entry with that name -/
def delegVerify (d : Deleg) (name : Nat) (m : Msg) (sigs : List Sig) : Bool :=
  match d.roles.find? (fun r => r.name == name) with
  | none => false
  | some r => verify d.keys ⟨r.keyids, r.threshold⟩ m sigs

/-- `Datastore::system_time`: read the stored time, compare, store the sample -/
def systemTime (cfg : Config) (st : St) : Except Err Int × St :=
  match st.ds.time with
  | some t =>
    if cfg.now < t then (.error .clock, st)
    else (.ok cfg.now, { st with ds := { st.ds with time := some cfg.now }, log := .dsCreate "latest_known_time" { st.ds with time := some cfg.now } :: st.log })
  | none => (.ok cfg.now, { st with ds := { st.ds with time := some cfg.now }, log := .dsCreate "latest_known_time" { st.ds with time := some cfg.now } :: st.log })

/-- `check_expired` (only called in `Safe` mode) -/
def checkExpired (cfg : Config) (r : RoleType) (expires : Int) (st : St) : Except Err Unit × St :=
  match systemTime cfg st with
  | (.error e, st') => (.error e, st')
  | (.ok t, st') => if t ≤ expires then (.ok (), st') else (.error (.expired r), st')

def expiryGate (cfg : Config) (r : RoleType) (expires : Int) (st : St) : Except Err Unit × St :=
  if cfg.safe then checkExpired cfg r expires st else (.ok (), st)

/-- `Root::keys(role)` (`KeysIter`): the keys of the role's key ids, stopping at the first id that
is missing from the key table -/
def Root.keysIter (r : Root) (ty : RoleType) : List KeyId :=
  match r.role ty with
  | none => []
  | some rk => rk.keyids.takeWhile (fun k => r.keys.contains k)

def St.req (st : St) (f : FileName) (limit : Nat) : St := { st with log := .limit limit :: .req f :: st.log }

/-! ### Steps 0 and 1: the root chain -/

inductive RootStep where
  | stop                   -- the walk ends with the currently trusted root
  | fail (e : Err)
  | next (r : Root)

/-- one iteration of the loop in `load_root` after the `ensure!` on the number of updates -/
def rootStep (cfg : Config) (srv : Server) (root : Root) : RootStep :=
  match fetchFile srv (.rootV (root.version + 1)) cfg.limits.maxRootSize none with
  | .error .openNotFound => .stop
  | .error .openOther => .stop
  | .error .midNotFound => .stop
  | .error _ => .fail (.transport .root)
  | .ok (.root new) =>
    if !rootVerify root .root new.msg new.sigs then .fail (.verify .root)
    else if !rootVerify new .root new.msg new.sigs then .fail (.verify .root)
    else if new.version < root.version then .fail (.older .root)
    else if new.version = root.version then .stop
    else .next new
  | .ok _ => .fail (.parse .root)

/-- the `loop` of `load_root`; `fuel` bounds the iterations (`maxRootUpdates + 1` suffices) -/
def rootLoop (cfg : Config) (srv : Server) (v0 : Nat) : Nat → Root → St → Except Err Root × St
  | 0, _, st => (.error .fuel, st)
  | fuel + 1, root, st =>
    if !(root.version < v0 + cfg.limits.maxRootUpdates) then (.error .maxUpdates, st)
    else
      let st := st.req (.rootV (root.version + 1)) cfg.limits.maxRootSize
      match rootStep cfg srv root with
      | .stop => (.ok root, st)
      | .fail e => (.error e, st)
      | .next new => rootLoop cfg srv v0 fuel new st

/-- step 1.9: both stored files are removed when the online keys changed.  `load_root` attempts both
removals before it reports a failure of either (`let r1 = remove(..); let r2 = remove(..); r1?; r2?`):
when the removal of `timestamp.json` fails, `snapshot.json` is removed all the same — the second
logged state is what such a failed cycle leaves behind (it is not a state a successful run passes
through). -/
def clearOnline (st : St) : St :=
  { st with ds := { st.ds with ts := .absent, snap := .absent },
            log := .dsRemove "snapshot" { st.ds with ts := .absent, snap := .absent } ::
                   .dsRemove "snapshot (timestamp.json could not be removed)" { st.ds with snap := .absent } ::
                   .dsRemove "timestamp" { st.ds with ts := .absent } :: st.log }

/-- the root that the stored timestamp and snapshot were trusted under: the one recorded in the
datastore, or the shipped root while nothing is recorded (or the record does not parse) -/
def refRoot (ds : Datastore) (r0 : Root) : Root :=
  match ds.root with
  | .doc p => p
  | _ => r0

/-- step 1.9's comparison (`KeysIter` sequences of the timestamp and of the snapshot role) -/
def onlineKeysChanged (a b : Root) : Bool :=
  a.keysIter .timestamp != b.keysIter .timestamp || a.keysIter .snapshot != b.keysIter .snapshot

def recordRoot (root : Root) (st : St) : St :=
  { st with ds := { st.ds with root := .doc root }, log := .dsCreate "root" { st.ds with root := .doc root } :: st.log }

def loadRoot (cfg : Config) (srv : Server) (shipped : Option Root) (st : St) : Except Err Root × St :=
  match shipped with
  | none => (.error .parseShipped, st)
  | some r0 =>
    if !rootVerify r0 .root r0.msg r0.sigs then (.error .verifyShipped, st)
    else
      let reference := refRoot st.ds r0
      match rootLoop cfg srv r0.version (cfg.limits.maxRootUpdates + 1) r0 st with
      | (.error e, st) => (.error e, st)
      | (.ok root, st) =>
        match expiryGate cfg .root root.expires st with
        | (.error e, st) => (.error e, st)
        | (.ok (), st) =>
          if onlineKeysChanged reference root then (.ok root, recordRoot root (clearOnline st))
          else (.ok root, recordRoot root st)

/-- the version prefix of a file name under consistent snapshots -/
def versioned (consistent : Bool) (v : Nat) : Option Nat := if consistent then some v else none

/-- `if let Some(Ok(old)) = datastore.bytes(..).map(parse) { if root.verify_role(&old).is_ok() {
ensure!(old.version <= new.version) } }`: a stored document blocks the new one iff it parses, still
verifies under the current root, and is newer -/
def storedBlocks {α : Type} (verifies : α → Bool) (version : α → Nat) (slot : Slot α) (newVersion : Nat) : Bool :=
  match slot with
  | .doc old => verifies old && decide (newVersion < version old)
  | _ => false

/-! ### Step 2: timestamp -/

def loadTimestamp (cfg : Config) (srv : Server) (root : Root) (st : St) : Except Err Timestamp × St :=
  let st := st.req .timestamp cfg.limits.maxTimestampSize
  match fetchFile srv .timestamp cfg.limits.maxTimestampSize none with
  | .error _ => (.error (.transport .timestamp), st)
  | .ok (.timestamp ts) =>
    if !rootVerify root .timestamp ts.msg ts.sigs then (.error (.verify .timestamp), st)
    else
      if storedBlocks (fun old => rootVerify root .timestamp old.msg old.sigs) (·.version) st.ds.ts ts.version then
        (.error (.older .timestamp), st)
      else
        match expiryGate cfg .timestamp ts.expires st with
        | (.error e, st) => (.error e, st)
        | (.ok (), st) =>
          (.ok ts, { st with ds := { st.ds with ts := .doc ts }, log := .dsCreate "timestamp" { st.ds with ts := .doc ts } :: st.log })
  | .ok _ => (.error (.parse .timestamp), st)

/-! ### Step 3: snapshot -/

def Snapshot.find (s : Snapshot) (k : MetaKey) : Option Meta := s.metas.lookup k

/-- 3.3.2 / 3.3.3 against a stored snapshot that still verifies under the current root -/
def snapshotRollback (old new : Snapshot) : Option Err :=
  if new.version < old.version then some (.older .snapshot)
  else match old.find .targets with
    | none => none
    | some om =>
      match new.find .targets with
      | none => some (.metaMissing .snapshot)
      | some nm => if nm.version < om.version then some (.older .targets) else none

def storedSnapshotBlocks (root : Root) (slot : Slot Snapshot) (sn : Snapshot) : Option Err :=
  match slot with
  | .doc old => if rootVerify root .snapshot old.msg old.sigs then snapshotRollback old sn else none
  | _ => none

def loadSnapshot (cfg : Config) (srv : Server) (root : Root) (ts : Timestamp) (st : St) :
    Except Err Snapshot × St :=
  match ts.snapshotMeta with
  | none => (.error (.metaMissing .timestamp), st)
  | some m =>
    let name := FileName.snapshot (versioned root.consistent m.version)
    let st := st.req name (m.length.getD cfg.limits.maxSnapshotSize)
    match fetchFile srv name (m.length.getD cfg.limits.maxSnapshotSize) m.hash with
    | .error _ => (.error (.transport .snapshot), st)
    | .ok (.snapshot sn) =>
      if sn.version != m.version then (.error (.versionMismatch .snapshot), st)
      else if !rootVerify root .snapshot sn.msg sn.sigs then (.error (.verify .snapshot), st)
      else
        match storedSnapshotBlocks root st.ds.snap sn with
        | some e => (.error e, st)
        | none =>
          match expiryGate cfg .snapshot sn.expires st with
          | (.error e, st) => (.error e, st)
          | (.ok (), st) =>
            (.ok sn, { st with ds := { st.ds with snap := .doc sn }, log := .dsCreate "snapshot" { st.ds with snap := .doc sn } :: st.log })
    | .ok _ => (.error (.parse .snapshot), st)

/-! ### Step 4: targets and delegations -/

mutual
/-- the loaded delegation tree -/
inductive Tgt where
  | mk (doc : TargetsDoc) (children : Roles)
inductive Roles where
  | nil
  | cons (role : DRole) (t : Tgt) (rest : Roles)
end

def Tgt.doc : Tgt → TargetsDoc
  | .mk d _ => d
def Tgt.children : Tgt → Roles
  | .mk _ c => c

/-- first pass of `load_delegations`: fetch, parse, verify, version-check and persist every role
of one delegations object, in list order. `visited` = role names fetched so far in this cycle. -/
def fetchRoles (cfg : Config) (srv : Server) (snap : Snapshot) (consistent : Bool) (d : Deleg) :
    List DRole → List Nat → St → Except Err (List (DRole × TargetsDoc) × List Nat) × St
  | [], visited, st => (.ok ([], visited), st)
  | r :: rest, visited, st =>
    match snap.find (.role r.name) with
    | none => (.error .roleNotInMeta, st)
    | some m =>
      if visited.contains r.name then (.error .duplicateRole, st)
      else
        let name := FileName.role r.name (versioned consistent m.version)
        let st := st.req name (m.length.getD cfg.limits.maxTargetsSize)
        match fetchFile srv name (m.length.getD cfg.limits.maxTargetsSize) none with
        | .error _ => (.error (.transport .targets), st)
        | .ok (.targets doc) =>
          if !delegVerify d r.name doc.msg doc.sigs then (.error (.verify .targets), st)
          else if doc.version != m.version then (.error (.versionMismatch .targets), st)
          else
            let st := { st with log := .dsCreate "role" st.ds :: st.log }
            match fetchRoles cfg srv snap consistent d rest (r.name :: visited) st with
            | (.error e, st) => (.error e, st)
            | (.ok (more, visited), st) => (.ok ((r, doc) :: more, visited), st)
        | .ok _ => (.error (.parse .targets), st)

/-- second pass: attach each fetched role and load what it delegates, in list order;
`recur` loads one delegations object (it is `loadDelegs` with less fuel) -/
def attachRoles (recur : Deleg → List Nat → St → Except Err (Roles × List Nat) × St) :
    List (DRole × TargetsDoc) → List Nat → St → Except Err (Roles × List Nat) × St
  | [], visited, st => (.ok (.nil, visited), st)
  | (r, doc) :: rest, visited, st =>
    let sub : Except Err (Roles × List Nat) × St :=
      match doc.deleg with
      | none => (.ok (.nil, visited), st)
      | some d => recur d visited st
    match sub with
    | (.error e, st) => (.error e, st)
    | (.ok (children, visited), st) =>
      match attachRoles recur rest visited st with
      | (.error e, st) => (.error e, st)
      | (.ok (more, visited), st) => (.ok (.cons r (.mk doc children) more, visited), st)

/-- `load_delegations` -/
def loadDelegs (cfg : Config) (srv : Server) (snap : Snapshot) (consistent : Bool) :
    Nat → Deleg → List Nat → St → Except Err (Roles × List Nat) × St
  | 0, _, _, st => (.error .fuel, st)
  | fuel + 1, d, visited, st =>
    match fetchRoles cfg srv snap consistent d d.roles visited st with
    | (.error e, st) => (.error e, st)
    | (.ok (loaded, visited), st) =>
      attachRoles (loadDelegs cfg srv snap consistent fuel) loaded visited st

mutual
/-- `Targets::find_target`: own entries first, then the delegated roles in order, pruned by the
role's path set -/
def Tgt.find (n : Nat) : Tgt → Option TEntry
  | .mk doc children =>
    match doc.entries.lookup n with
    | some e => some e
    | none => Roles.find n children
def Roles.find (n : Nat) : Roles → Option TEntry
  | .nil => none
  | .cons role t rest =>
    if role.paths.contains n then
      match Tgt.find n t with
      | some e => some e
      | none => Roles.find n rest
    else Roles.find n rest
end

mutual
/-- `targets_iter`: the names listed by every role of the tree -/
def Tgt.names : Tgt → List Nat
  | .mk doc children => doc.entries.map (·.1) ++ Roles.names children
def Roles.names : Roles → List Nat
  | .nil => []
  | .cons _ t rest => Tgt.names t ++ Roles.names rest
end

/-- `Targets::validate` -/
def Tgt.validate (t : Tgt) : Bool := t.names.all fun n => (t.find n).isSome

/-- `if let Some(delegations) = &mut targets.signed.delegations { load_delegations(..) }` -/
def loadChildren (cfg : Config) (srv : Server) (snap : Snapshot) (consistent : Bool) (doc : TargetsDoc) (st : St) :
    Except Err (Roles × List Nat) × St :=
  match doc.deleg with
  | none => (.ok (.nil, []), st)
  | some d => loadDelegs cfg srv snap consistent (snap.metas.length + 1) d [] st

def loadTargets (cfg : Config) (srv : Server) (root : Root) (snap : Snapshot) (st : St) :
    Except Err Tgt × St :=
  match snap.find .targets with
  | none => (.error (.metaMissing .timestamp), st)
  | some m =>
    let name := FileName.targets (versioned root.consistent m.version)
    let st := st.req name (m.length.getD cfg.limits.maxTargetsSize)
    match fetchFile srv name (m.length.getD cfg.limits.maxTargetsSize) m.hash with
    | .error _ => (.error (.transport .targets), st)
    | .ok (.targets doc) =>
      if doc.version != m.version then (.error (.versionMismatch .targets), st)
      else if !rootVerify root .targets doc.msg doc.sigs then (.error (.verify .targets), st)
      else
        if storedBlocks (fun old => rootVerify root .targets old.msg old.sigs) (·.version) st.ds.tgt doc.version then
          (.error (.older .targets), st)
        else
          match expiryGate cfg .targets doc.expires st with
          | (.error e, st) => (.error e, st)
          | (.ok (), st) =>
            let st := { st with ds := { st.ds with tgt := .doc doc }, log := .dsCreate "targets" { st.ds with tgt := .doc doc } :: st.log }
            match loadChildren cfg srv snap root.consistent doc st with
            | (.error e, st) => (.error e, st)
            | (.ok (children, _), st) =>
              let t := Tgt.mk doc children
              if t.validate then (.ok t, st) else (.error .invalidPath, st)
    | .ok _ => (.error (.parse .targets), st)

/-! ### One update cycle (`RepositoryLoader::load`) -/

structure View where
  root : Root
  ts : Timestamp
  snap : Snapshot
  tgt : Tgt

def cycle (cfg : Config) (srv : Server) (shipped : Option Root) (st : St) : Except Err View × St :=
  match loadRoot cfg srv shipped st with
  | (.error e, st) => (.error e, st)
  | (.ok root, st) =>
    match loadTimestamp cfg srv root st with
    | (.error e, st) => (.error e, st)
    | (.ok ts, st) =>
      match loadSnapshot cfg srv root ts st with
      | (.error e, st) => (.error e, st)
      | (.ok snap, st) =>
        match loadTargets cfg srv root snap st with
        | (.error e, st) => (.error e, st)
        | (.ok tgt, st) => (.ok ⟨root, ts, snap, tgt⟩, st)

/-! ### Reading a target from a loaded repository: the expiration gate -/

/-- `expires_iter.iter().min_by_key(..)`: the earliest of root, timestamp, snapshot, targets (the
first one in that order when several are equally early) -/
def View.earliest (v : View) : Int × RoleType :=
  let cands : List (Int × RoleType) :=
    [(v.root.expires, .root), (v.ts.expires, .timestamp), (v.snap.expires, .snapshot), ((Tgt.doc v.tgt).expires, .targets)]
  cands.foldl (fun best c => if c.1 < best.1 then c else best) (v.root.expires, .root)

/-- the check at the start of `read_target` (hence of `save_target` and `cache`) -/
def readGate (cfg : Config) (v : View) (st : St) : Except Err Unit × St :=
  if cfg.safe then
    match systemTime cfg st with
    | (.error e, st) => (.error e, st)
    | (.ok t, st) => if t < v.earliest.1 then (.ok (), st) else (.error (.expired v.earliest.2), st)
  else (.ok (), st)

/-! ### The datastore's history (for crash analysis, C15) -/

def Ev.after? : Ev → Option Datastore
  | .dsCreate _ a => some a
  | .dsRemove _ a => some a
  | _ => none

/-- the datastore after each datastore operation so far, newest first: together with the initial
datastore these are the states an interrupted operation can leave behind -/
def St.states (st : St) : List Datastore := st.log.filterMap Ev.after?

end Tough.Client
