/-
What tough keeps of a metadata document and what it verifies signatures over (C12).

`serde_json::from_slice::<Signed<T>>` turns the `signed` member into the typed struct `T`;
`verify_role` canonicalises the RE-SERIALISATION of that struct (`canonical_form`).  The struct is
everything the client goes on to use.  `norm` below is "parse, then re-serialise" at the level of
JSON values: per object kind a table of the known members with their types and serde attributes,
and whether the struct has a flattened `_extra` catch-all that keeps unknown members.

Transcribed from `tough/src/schema/mod.rs` (anchors in DESIGN.md, appendix A).  Import-free apart from
the canonical form (`Tough/Spec/CJson.lean`).
-/
import Tough.Spec.CJson
namespace Tough.Schema
open Tough.CJson

/-- a string literal as code points -/
def S (s : String) : Str := s.toList.map Char.toNat

inductive Kind where
  | root | roleKeys | snapshot | timestamp | metafile | hashes | targets | target | delegations | delegatedRole
  deriving DecidableEq, Repr

/-- the type of a member -/
inductive Ty where
  | str | bool
  | nat          -- u64
  | nznat        -- NonZeroU64
  | time         -- DateTime<Utc>
  | hex          -- Decoded<Hex>: validated, original spelling kept
  | any          -- serde_json::Value, kept as it is
  | obj (k : Kind)
  | arrHex | arrStr | arrObj (k : Kind)          -- Vec<…>
  | mapAny | mapObj (k : Kind)                   -- HashMap<String, …>
  | roleMap      -- HashMap<RoleType, RoleKeys>: the keys are the four role names
  | keys         -- HashMap<Decoded<Hex>, Key> read by `deserialize_keys`
  deriving DecidableEq, Repr

inductive Req where
  | required
  | optional          -- `Option<T>`, `skip_serializing_if = "Option::is_none"`: absent or null = none
  | defaultEmpty      -- `#[serde(default)]`, `skip_serializing_if = "HashMap::is_empty"`
  deriving DecidableEq, Repr

structure Field where
  name : Str
  ty : Ty
  req : Req := .required

def common : List Field :=
  [⟨S "spec_version", .str, .required⟩, ⟨S "version", .nznat, .required⟩, ⟨S "expires", .time, .required⟩]

def fields : Kind → List Field
  | .root => common ++ [⟨S "consistent_snapshot", .bool, .required⟩, ⟨S "keys", .keys, .required⟩, ⟨S "roles", .roleMap, .required⟩]
  | .roleKeys => [⟨S "keyids", .arrHex, .required⟩, ⟨S "threshold", .nznat, .required⟩]
  | .snapshot => common ++ [⟨S "meta", .mapObj .metafile, .required⟩]
  | .timestamp => common ++ [⟨S "meta", .mapObj .metafile, .required⟩]
  | .metafile => [⟨S "length", .nat, .optional⟩, ⟨S "hashes", .obj .hashes, .optional⟩, ⟨S "version", .nznat, .required⟩]
  | .hashes => [⟨S "sha256", .hex, .required⟩]
  | .targets => common ++ [⟨S "targets", .mapObj .target, .required⟩, ⟨S "delegations", .obj .delegations, .optional⟩]
  | .target => [⟨S "length", .nat, .required⟩, ⟨S "hashes", .obj .hashes, .required⟩, ⟨S "custom", .mapAny, .defaultEmpty⟩]
  | .delegations => [⟨S "keys", .keys, .required⟩, ⟨S "roles", .arrObj .delegatedRole, .required⟩]
  | .delegatedRole => [⟨S "name", .str, .required⟩, ⟨S "keyids", .arrHex, .required⟩, ⟨S "threshold", .nznat, .required⟩,
      ⟨S "terminating", .bool, .required⟩, ⟨S "paths", .arrStr, .required⟩, ⟨S "path_hash_prefixes", .arrStr, .required⟩]

/-- does the struct keep unknown members (`#[serde(flatten)] _extra`)? -/
def hasExtra : Kind → Bool
  | .delegations => false
  | .delegatedRole => false
  | _ => true

/-- `#[serde(tag = "_type")]`: written from the Rust type, ignored (and removed from `_extra`) on input -/
def tag : Kind → Option Str
  | .root => some (S "root")
  | .snapshot => some (S "snapshot")
  | .targets => some (S "targets")
  | .timestamp => some (S "timestamp")
  | _ => none

def findField (k : Kind) (name : Str) : Option Field := (fields k).find? (fun f => f.name == name)

/-- what the model takes from outside -/
structure Env where
  /-- Unicode NFC on a fragment (C11) -/
  nfc : Str → Str
  /-- `DateTime<Utc>`: parse an RFC 3339 time and print it again; `none` = does not parse -/
  tnorm : Str → Option Str
  /-- `deserialize_keys` accepts the entry: the key parses and its identifier is the one computed from it (C13) -/
  keyOk : Str → JVal → Bool

def isHexDigit (c : Nat) : Bool := (0x30 ≤ c && c ≤ 0x39) || (0x61 ≤ c && c ≤ 0x66) || (0x41 ≤ c && c ≤ 0x46)
def isHex (s : Str) : Bool := s.length % 2 == 0 && s.all isHexDigit

def roleNames : List Str := [S "root", S "snapshot", S "targets", S "timestamp"]

def memberNames : JMembers → List Str
  | .nil => []
  | .cons k _ rest => k :: memberNames rest

def memberGet (name : Str) : JMembers → Option JVal
  | .nil => none
  | .cons k v rest => if k == name then some v else memberGet name rest

/-- no name twice (`deserialize_keys` refuses a key id it has seen; C13 treats respellings) -/
def noDup : List Str → Bool
  | [] => true
  | a :: rest => !rest.contains a && noDup rest

def isNull : JVal → Bool
  | .null => true
  | _ => false

def isEmptyObj : JVal → Bool
  | .obj .nil => true
  | _ => false

/-- `DelegatedRole.paths` is a flattened enum (`PathSet`): the FIRST member named `paths` or
`path_hash_prefixes` is the path set, later members of either name are ignored -/
def isPathSet (k : Kind) (name : Str) : Bool :=
  k == .delegatedRole && (name == S "paths" || name == S "path_hash_prefixes")

/-- struct-level checks that do not look inside the members: no known member twice, every required
member present (an optional one may be absent or null); a `DelegatedRole` has a path set -/
def fieldsOk (k : Kind) (ms : JMembers) : Bool :=
  let names := memberNames ms
  (fields k).all (fun f =>
    isPathSet k f.name ||
    (let n := names.count f.name
     n ≤ 1 && (match f.req with
       | .required => n == 1
       | _ => true))) &&
  (k != .delegatedRole || names.any (isPathSet k))

mutual
/-- parse-and-reserialise of one value at a given type; `none` = the document does not parse -/
def norm (env : Env) : Ty → JVal → Option JVal
  | .str, .str s => some (.str s)
  | .bool, .bool b => some (.bool b)
  | .nat, .int i => if 0 ≤ i ∧ i < 18446744073709551616 then some (.int i) else none
  | .nznat, .int i => if 0 < i ∧ i < 18446744073709551616 then some (.int i) else none
  | .time, .str s => (env.tnorm s).map .str
  | .hex, .str s => if isHex s then some (.str s) else none
  | .any, v => some v
  | .obj k, .obj ms => if fieldsOk k ms then (normFields env k false ms).map .obj else none
  | .arrHex, .arr xs => (normList env .hex xs).map .arr
  | .arrStr, .arr xs => (normList env .str xs).map .arr
  | .arrObj k, .arr xs => (normList env (.obj k) xs).map .arr
  | .mapAny, .obj ms => some (.obj ms)
  | .mapObj k, .obj ms => (normMap env (.obj k) ms).map .obj
  | .roleMap, .obj ms =>
    if (memberNames ms).all (fun n => roleNames.contains n) then (normMap env (.obj .roleKeys) ms).map .obj else none
  | .keys, .obj ms => if keysOk env ms && noDup (memberNames ms) then some (.obj ms) else none
  | _, _ => none
def normList (env : Env) (t : Ty) : JList → Option JList
  | .nil => some .nil
  | .cons v rest =>
    match norm env t v, normList env t rest with
    | some v', some rest' => some (.cons v' rest')
    | _, _ => none
def normMap (env : Env) (t : Ty) : JMembers → Option JMembers
  | .nil => some .nil
  | .cons k v rest =>
    match norm env t v, normMap env t rest with
    | some v', some rest' => some (.cons k v' rest')
    | _, _ => none
/-- the members of a struct, one by one: a known member is normalised at its type (and dropped when
it is a none / an empty default), an unknown one is kept iff the struct has `_extra`; the `_type`
member of a role is dropped (it is written from the Rust type); `seen`: a path set member has been
read already -/
def normFields (env : Env) (k : Kind) : Bool → JMembers → Option JMembers
  | _, .nil => some .nil
  | seen, .cons name v rest =>
    if isPathSet k name && seen then normFields env k true rest
    else
      match normFields env k (seen || isPathSet k name) rest with
      | none => none
      | some rest' =>
        match findField k name with
        | some f =>
          if (f.req == .optional && isNull v) then some rest'
          else match norm env f.ty v with
            | none => none
            | some v' => if f.req == .defaultEmpty && isEmptyObj v' then some rest' else some (.cons name v' rest')
        | none =>
          if (tag k).isSome && name == S "_type" then some rest'
          else if hasExtra k then some (.cons name v rest') else some rest'
/-- every entry of a key table passes `deserialize_keys` -/
def keysOk (env : Env) : JMembers → Bool
  | .nil => true
  | .cons k v rest => env.keyOk k v && keysOk env rest
end

/-- the value `canonical_form` serialises: the normalised members with the type tag -/
def reser (env : Env) (k : Kind) (j : JVal) : Option JVal :=
  match norm env (.obj k) j, tag k with
  | some (.obj ms), some t => some (.obj (.cons (S "_type") (.str t) ms))
  | some v, none => some v
  | _, _ => none

/-- the bytes a signature over the document is checked against -/
def message (env : Env) (k : Kind) (j : JVal) : Option Bytes :=
  match reser env k j with
  | some v => canon env.nfc v
  | none => none

end Tough.Schema
