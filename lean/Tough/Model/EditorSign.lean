/-
The signing and incorporation decisions of the repository editor (C10): `SignedRole::new`
(tough/src/editor/signed.rs, keys.rs) and the checks on metadata supplied by a role's holder
(`RepositoryEditor::update_delegated_targets`, `TargetsEditor::add_role`).  Over the signature model
of `Tough/Model/Sig.lean`.  Import-free otherwise.
-/
import Tough.Model.Sig
namespace Tough.EditorSign
open Tough.Sig

def dedupK : List KeyId → List KeyId
  | [] => []
  | k :: ks => if ks.contains k then dedupK ks else k :: dedupK ks

/-- a genuine signature by key `k` over `m` -/
def genuine (m : Msg) (k : KeyId) : Sig := ⟨k, some k, m⟩

/-- the keys `SignedRole::new` signs with: the available key sources whose public key is in the key
holder's table (`get_keys`: a map from key id to key pair, so each id once) and that the role lists -/
def signingKeys (table avail : List KeyId) (rk : RoleKeys) : List KeyId :=
  (dedupK avail).filter fun k => table.contains k && rk.keyids.contains k

/-- `SignedRole::new`: for every role but root the number of signatures must reach the threshold -/
def signRole (isRoot : Bool) (table avail : List KeyId) (rk : RoleKeys) (m : Msg) : Option (List Sig) :=
  let ks := signingKeys table avail rk
  if !isRoot && decide (ks.length < rk.threshold) then none else some (ks.map (genuine m))

/-- a role holder signs its own document with the keys at hand (`TargetsEditor::sign` with a key
holder made from exactly those keys, threshold 1) -/
def holderSigs (m : Msg) (signers : List KeyId) : List Sig := (dedupK signers).map (genuine m)

/-- the check on incoming metadata: `parent.verify_role(&role, name)` with the keys and the threshold
the delegating role registers for it -/
def incomingVerifies (table : List KeyId) (rk : RoleKeys) (m : Msg) (sigs : List Sig) : Bool := verify table rk m sigs

/-- `update_delegated_targets`: replace only what verifies and is not older -/
def updateAccepted (table : List KeyId) (rk : RoleKeys) (m : Msg) (sigs : List Sig) (currentVersion newVersion : Nat) : Bool :=
  incomingVerifies table rk m sigs && decide (currentVersion ≤ newVersion)

/-- `add_role`; `checked = false` is the code before the repair: the incoming metadata was grafted
without looking at its signatures -/
def addRoleAccepted (checked : Bool) (table : List KeyId) (rk : RoleKeys) (m : Msg) (sigs : List Sig) : Bool :=
  if checked then incomingVerifies table rk m sigs else true

/-- `RepositoryEditor::sign` refuses a delegation tree that uses a role name twice (a role name is the
name of one metadata file, and a client loads each name at most once) -/
def namesDistinct : List Nat → Bool
  | [] => true
  | a :: rest => !rest.contains a && namesDistinct rest

end Tough.EditorSign
