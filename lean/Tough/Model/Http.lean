/-
M7 — the HTTP transport's retry machine.  Model of `RetryStream` in `tough/src/http.rs`
(`poll_new_request`, `poll_executing`, `poll_streaming`, `may_retry`, `parse_response_code`,
`build_request`).  Import-free.

The network is a script: the i-th request is answered by the i-th item.  Honest-content assumption
(the property is about a server that serves the requested resource): a 2xx body delivers bytes of
the resource starting at the offset the request asked for.  reqwest / hyper / tokio (delivery of
response events, time-outs) are events of the model.
-/
namespace Tough.Http

abbrev Bytes := List Nat

inductive Ending where
  | complete     -- the body is delivered to its end
  | timeout      -- the response stalls: reqwest reports a time-out (retryable)
  | fatal        -- the body breaks off with a non-timeout error (not retryable)
  deriving DecidableEq, Repr

inductive Resp where
  | status (code : Nat)                                  -- a response with a non-2xx status
  | connectErr                                           -- no response: error while sending the request (retryable)
  | body (acceptRanges : Bool) (deliver : Nat) (e : Ending)   -- 2xx; `deliver` bytes arrive before `e` (all of them for `complete`)
  deriving DecidableEq, Repr

inductive Final where
  | ok | errOther | errNotFound
  deriving DecidableEq, Repr

structure St where
  currentTry : Nat := 0
  nextByte : Nat := 0
  hasRange : Bool := false
  yielded : Bytes := []
  /-- the `Range: bytes=<n>-` start of every request issued (`none` = no Range header), newest first -/
  requests : List (Option Nat) := []
  deriving DecidableEq, Repr

/-- `may_retry`: account for the try, then decide -/
def mayRetry (tries : Nat) (st : St) : Bool × St :=
  let st' := { st with currentTry := st.currentTry + 1 }
  (decide (tries - st'.currentTry > 0) && (st.hasRange || st.nextByte == 0), st')

/-- `may_retry` as it was before the fix: tries left computed BEFORE the increment -/
def mayRetryOld (tries : Nat) (st : St) : Bool × St :=
  let st' := { st with currentTry := st.currentTry + 1 }
  (decide (tries - st.currentTry > 0) && (st.hasRange || st.nextByte == 0), st')

/-- `build_request`: a Range header iff something was already yielded -/
def issue (st : St) : St :=
  { st with requests := (if st.nextByte = 0 then none else some st.nextByte) :: st.requests }

/-- one fetch: the stream's behaviour until it is done; `retry` is `mayRetry` (or the old one) -/
def fetchWith (retry : Nat → St → Bool × St) (tries : Nat) (res : Bytes) : List Resp → St → Final × St
  | [], st => (.errOther, st)          -- script exhausted (harness scripts are always long enough)
  | r :: rest, st =>
    let st := issue st
    match r with
    | .status c =>
      if 500 ≤ c ∧ c < 600 then
        (match retry tries st with
         | (true, st') => fetchWith retry tries res rest st'
         | (false, st') => (.errOther, st'))
      else if c = 403 ∨ c = 404 ∨ c = 410 then (.errNotFound, st)
      else (.errOther, st)
    | .connectErr =>
      (match retry tries st with
       | (true, st') => fetchWith retry tries res rest st'
       | (false, st') => (.errOther, st'))
    | .body ar k e =>
      let remainder := res.drop st.nextByte
      let chunk := match e with | .complete => remainder | _ => remainder.take k
      let st := { st with hasRange := st.hasRange || ar, yielded := st.yielded ++ chunk,
                          nextByte := st.nextByte + chunk.length }
      match e with
      | .complete => (.ok, st)
      | .fatal => (.errOther, st)
      | .timeout =>
        (match retry tries st with
         | (true, st') => fetchWith retry tries res rest st'
         | (false, st') => (.errOther, st'))

def fetch (tries : Nat) (res : Bytes) (script : List Resp) : Final × St :=
  fetchWith mayRetry tries res script {}

def fetchOld (tries : Nat) (res : Bytes) (script : List Resp) : Final × St :=
  fetchWith mayRetryOld tries res script {}

end Tough.Http
