/-
M5 — target names and saving a target.  Model of `tough/src/target_name.rs` (`clean_name`,
`TargetName::new`) and of `Repository::save_target` in `tough/src/lib.rs` as a trace of
file-system operations.  Import-free.

Strings are `List Char`; a path is the list of its components below the file-system root.
Modelled, not verified: `typed_path::UnixPath::{join, normalize, components}` (transcribed from
typed-path 0.9.2: `.` dropped, `..` pops the last normal component and is discarded at the root,
empty components skipped), `std::path::Path::{join, parent, starts_with}` on component lists,
`tempfile::NamedTempFile` (a fresh name in the given directory, removed on drop, `persist` = rename).
-/
import Tough.Model.Stream
namespace Tough.Save
open Tough.Stream

abbrev Str := List Char

/-- split on '/' (all segments, empty ones included) -/
def splitSlash : Str → List Str
  | [] => [[]]
  | c :: cs =>
    match splitSlash cs with
    | [] => [[]]          -- unreachable: `splitSlash` never returns `[]`
    | seg :: rest => if c = '/' then [] :: seg :: rest else (c :: seg) :: rest

def joinSlash : List Str → Str
  | [] => []
  | [s] => s
  | s :: rest => s ++ '/' :: joinSlash rest

inductive NameErr where
  | dotDot | empty | slash
  deriving DecidableEq, Repr

/-- `normalize` on the components after the root: `.` dropped, `..` pops (or is discarded) -/
def normalizeComps (comps : List Str) : List Str :=
  comps.foldl (fun st c =>
    if c = ['.'] then st else if c = ['.', '.'] then st.dropLast else st ++ [c]) []

/-- the resolved form before the final checks: `UnixPath::new("/").join(name).normalize()`, with
the leading `/` removed again when `name` was not absolute -/
def cleanCore (name : Str) : Str :=
  let joined := joinSlash (normalizeComps ((splitSlash name).filter (· ≠ [])))
  if name.head? = some '/' then '/' :: joined else joined

/-- `clean_name` -/
def cleanName (name : Str) : Except NameErr Str :=
  if name = ['.', '.'] then .error .dotDot
  else if name = [] then .error .empty
  else if cleanCore name = [] then .error .empty
  else if cleanCore name = ['/'] then .error .slash
  else .ok (cleanCore name)

/-! ### Saving -/

abbrev Path := List Str

inductive Op where
  | mkdirAll (d : Path)
  | createTemp (p : Path)
  | write (p : Path) (b : Bytes)      -- append to an open file
  | rename (src dst : Path)
  | unlink (p : Path)
  deriving DecidableEq, Repr

def Op.path : Op → Path
  | .mkdirAll d => d
  | .createTemp p => p
  | .write p _ => p
  | .rename _ dst => dst
  | .unlink p => p

/-- regular files and their contents -/
abbrev FS := List (Path × Bytes)

def FS.get (fs : FS) (p : Path) : Option Bytes := fs.lookup p
def FS.del (fs : FS) (p : Path) : FS := fs.filter fun e => !(e.1 == p)
def FS.set (fs : FS) (p : Path) (b : Bytes) : FS := (p, b) :: fs.del p

def applyOp (fs : FS) : Op → FS
  | .mkdirAll _ => fs
  | .createTemp p => fs.set p []
  | .write p b => fs.set p ((fs.get p).getD [] ++ b)
  | .rename src dst => match fs.get src with
    | some b => (fs.del src).set dst b
    | none => fs
  | .unlink p => fs.del p

def applyOps (fs : FS) (ops : List Op) : FS := ops.foldl applyOp fs

/-- the loop `while let Some(bytes) = stream.next().await { f.write_all(bytes?) }`: one write per
data item until the first error item; `true` iff the stream ended without error -/
def writeOps (t : Path) : List Item → List Op × Bool
  | [] => ([], true)
  | .data b :: rest => let (ops, ok) := writeOps t rest; (.write t b :: ops, ok)
  | .err _ :: _ => ([], false)

inductive SaveErr where
  | noParent | unsafePath | transfer
  deriving DecidableEq, Repr

/-- `outdir.join(filename)`: an absolute file name replaces the directory -/
def joinPath (outdir : Path) (absolute : Bool) (file : Path) : Path := if absolute then file else outdir ++ file

/-- `save_target` once the destination path `dst = outdir.join(filename)` is known; `tmp` is the
name `NamedTempFile::new_in` picks; `items` is what `read_target` yields (the adapters of `Stream`
applied to the transport stream) -/
def saveTrace (outdir dst : Path) (tmp : Str) (items : List Item) : Except SaveErr Unit × List Op :=
  if dst = [] then (.error .noParent, [])
  else if !(outdir.isPrefixOf dst.dropLast) then (.error .unsafePath, [])
  else if (writeOps (dst.dropLast ++ [tmp]) items).2 then
    (.ok (), [.mkdirAll dst.dropLast, .createTemp (dst.dropLast ++ [tmp])] ++
      (writeOps (dst.dropLast ++ [tmp]) items).1 ++ [.rename (dst.dropLast ++ [tmp]) dst])
  else
    (.error .transfer, [.mkdirAll dst.dropLast, .createTemp (dst.dropLast ++ [tmp])] ++
      (writeOps (dst.dropLast ++ [tmp]) items).1 ++ [.unlink (dst.dropLast ++ [tmp])])

end Tough.Save
