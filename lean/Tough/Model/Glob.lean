/-
M4 (part) — path patterns.  Model of the subset of `globset` (default options) that the property
quantifies over: literals, `*` (any sequence of characters, `/` included) and `?` (any single
character), and of `PathHashPrefix::matches_target_name`.  Import-free.
-/
namespace Tough.Glob

/-- `fuel` bounds the recursion (pattern length + text length + 1 always suffices) -/
def globAux : Nat → List Char → List Char → Bool
  | 0, _, _ => false
  | _ + 1, [], [] => true
  | _ + 1, [], _ :: _ => false
  | n + 1, '*' :: ps, s =>
    globAux n ps s || (match s with | [] => false | _ :: t => globAux n ('*' :: ps) t)
  | n + 1, '?' :: ps, _ :: t => globAux n ps t
  | _ + 1, '?' :: _, [] => false
  | n + 1, p :: ps, c :: t => p == c && globAux n ps t
  | _ + 1, _ :: _, [] => false

def globMatch (p s : List Char) : Bool := globAux (p.length + s.length + 1) p s

/-- `target_name_digest.starts_with(prefix)` on the hex digest of the resolved name -/
def hashPrefixMatch (hexDigest pre : List Char) : Bool := pre.isPrefixOf hexDigest

end Tough.Glob
