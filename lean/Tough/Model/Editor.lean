/-
The repository editor's update path (C17): `RepositoryEditor::from_repo`, the setters, `add_target`,
`sign` with `build_targets` / `build_snapshot` / `build_timestamp` (tough/src/editor/mod.rs,
targets.rs).  Documents are records of what the property speaks about; the delegation structure
(`Delegations`, with every delegated role's signed document inside) is one opaque value `δ`, as it is
for the editor: it is cloned from the loaded repository and written back.  Import-free.
-/
namespace Tough.Editor

/-- unknown members of a document (`_extra`), as an opaque value -/
abbrev Extra := Nat

structure Target where
  length : Nat
  digest : Nat
  custom : Nat
  extra : Extra
  deriving DecidableEq, Repr

/-- `HashMap<TargetName, Target>` as an association list, newest binding first -/
abbrev TMap := List (Nat × Target)

def TMap.get (m : TMap) (n : Nat) : Option Target := m.lookup n

/-- `HashMap::extend`: the new bindings win -/
def TMap.extend (m new : TMap) : TMap := new ++ m

structure TargetsDoc (δ : Type) where
  version : Nat
  expires : Int
  targets : TMap
  deleg : δ
  extra : Extra

structure OnlineDoc where
  version : Nat
  expires : Int
  extra : Extra
  deriving DecidableEq, Repr

structure Repo (δ : Type) where
  targets : TargetsDoc δ
  snapshot : OnlineDoc
  timestamp : OnlineDoc

/-- `TargetsEditor` + the editor's own optional fields -/
structure Editor (δ : Type) where
  existing : Option TMap := none
  new : Option TMap := none
  deleg : Option δ := none
  targetsExtra : Option Extra := none
  targetsVersion : Option Nat := none
  targetsExpires : Option Int := none
  snapshotVersion : Option Nat := none
  snapshotExpires : Option Int := none
  snapshotExtra : Option Extra := none
  timestampVersion : Option Nat := none
  timestampExpires : Option Int := none
  timestampExtra : Option Extra := none

/-- `from_repo`: targets (with delegations and `_extra`), the `_extra` of snapshot and timestamp; no
versions, no expirations -/
def fromRepo {δ : Type} (r : Repo δ) : Editor δ :=
  { existing := some r.targets.targets, deleg := some r.targets.deleg, targetsExtra := some r.targets.extra,
    snapshotExtra := some r.snapshot.extra, timestampExtra := some r.timestamp.extra }

def addTarget {δ : Type} (e : Editor δ) (n : Nat) (t : Target) : Editor δ :=
  { e with new := some ((n, t) :: e.new.getD []) }

/-- `HashMap::remove` -/
def TMap.erase (m : TMap) (n : Nat) : TMap := m.filter (fun p => p.1 != n)

/-- `remove_target`: the name goes from the targets the role already had AND from those added through
this editor -/
def removeTarget {δ : Type} (e : Editor δ) (n : Nat) : Editor δ :=
  { e with existing := e.existing.map (·.erase n), new := e.new.map (·.erase n) }

/-- `clear_targets` -/
def clearTargets {δ : Type} (e : Editor δ) : Editor δ := { e with existing := some [], new := some [] }

/-- an edit of the role's targets -/
inductive TOp where
  | add (n : Nat) (t : Target)
  | remove (n : Nat)
  | clear

def applyOp {δ : Type} (e : Editor δ) : TOp → Editor δ
  | .add n t => addTarget e n t
  | .remove n => removeTarget e n
  | .clear => clearTargets e

def applyOps {δ : Type} (e : Editor δ) (ops : List TOp) : Editor δ := ops.foldl applyOp e

/-- what `build_targets` will list: the existing targets extended by the new ones -/
def listed {δ : Type} (e : Editor δ) : TMap := (e.existing.getD []).extend (e.new.getD [])

inductive Err where
  | missing (what : String)
  deriving DecidableEq, Repr

/-- `build_targets` -/
def buildTargets {δ : Type} (e : Editor δ) (noDeleg : δ) : Except Err (TargetsDoc δ) :=
  match e.targetsVersion, e.targetsExpires with
  | some v, some x =>
    .ok { version := v, expires := x, targets := ((e.existing.getD []).extend (e.new.getD [])),
          deleg := e.deleg.getD noDeleg, extra := e.targetsExtra.getD 0 }
  | none, _ => .error (.missing "targets version")
  | _, none => .error (.missing "targets expiration")

/-- `build_snapshot`; `keepsExtra = false` is the code before the repair: `_extra` was computed and
never assigned -/
def buildSnapshot {δ : Type} (keepsExtra : Bool) (e : Editor δ) : Except Err OnlineDoc :=
  match e.snapshotVersion, e.snapshotExpires with
  | some v, some x => .ok { version := v, expires := x, extra := if keepsExtra then e.snapshotExtra.getD 0 else 0 }
  | none, _ => .error (.missing "snapshot version")
  | _, none => .error (.missing "snapshot expiration")

/-- `build_timestamp` -/
def buildTimestamp {δ : Type} (e : Editor δ) : Except Err OnlineDoc :=
  match e.timestampVersion, e.timestampExpires with
  | some v, some x => .ok { version := v, expires := x, extra := e.timestampExtra.getD 0 }
  | none, _ => .error (.missing "timestamp version")
  | _, none => .error (.missing "timestamp expiration")

/-- `sign` (signatures are C01/C10's subject: here, what is signed) -/
def sign {δ : Type} (keepsSnapshotExtra : Bool) (e : Editor δ) (noDeleg : δ) : Except Err (Repo δ) :=
  match buildTargets e noDeleg with
  | .error x => .error x
  | .ok t =>
    match buildSnapshot keepsSnapshotExtra e with
    | .error x => .error x
    | .ok s =>
      match buildTimestamp e with
      | .error x => .error x
      | .ok ts => .ok { targets := t, snapshot := s, timestamp := ts }

/-- an update: new versions and expirations, then the new targets -/
structure Update where
  targetsVersion : Nat
  targetsExpires : Int
  snapshotVersion : Nat
  snapshotExpires : Int
  timestampVersion : Nat
  timestampExpires : Int
  added : List (Nat × Target)

def setVersions {δ : Type} (e : Editor δ) (u : Update) : Editor δ :=
  { e with targetsVersion := some u.targetsVersion, targetsExpires := some u.targetsExpires,
           snapshotVersion := some u.snapshotVersion, snapshotExpires := some u.snapshotExpires,
           timestampVersion := some u.timestampVersion, timestampExpires := some u.timestampExpires }

def addAll {δ : Type} (e : Editor δ) (added : List (Nat × Target)) : Editor δ :=
  added.foldl (fun acc (p : Nat × Target) => addTarget acc p.1 p.2) e

def applyUpdate {δ : Type} (e : Editor δ) (u : Update) : Editor δ := addAll (setVersions e u) u.added

def update {δ : Type} (keepsSnapshotExtra : Bool) (r : Repo δ) (u : Update) (noDeleg : δ) : Except Err (Repo δ) :=
  sign keepsSnapshotExtra (applyUpdate (fromRepo r) u) noDeleg

end Tough.Editor
