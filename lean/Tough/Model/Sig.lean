/-
L1 — signatures and threshold verification.  Model of `tough/src/schema/verify.rs`
(`Root::verify_role`, `Delegations::verify_role`).  Import-free.

Abstraction of the signature schemes (DESIGN §4): a signature entry is the triple
(claimed key id, key that actually produced it (`none` = no key: corrupted bytes), message it was
made over).  `Key::verify` succeeds iff the key stored under the claimed id is the signer and the
message is the one checked.  Key ids identify keys (C13), so the key table is the list of ids it
contains.
-/
namespace Tough.Sig

abbrev KeyId := Nat
abbrev Msg := Nat

structure Sig where
  keyid : KeyId
  signer : Option KeyId
  msg : Msg
  deriving DecidableEq, Repr

structure RoleKeys where
  keyids : List KeyId
  threshold : Nat
  deriving DecidableEq, Repr

/-- `self.keys.get(&signature.keyid)` finds a key and `key.verify(&data, &signature.sig)` holds -/
def sigOk (table : List KeyId) (s : Sig) (m : Msg) : Bool :=
  table.contains s.keyid && s.signer == some s.keyid && s.msg == m

/-- the three nested `if`s of the verification loop -/
def counts (table : List KeyId) (rk : RoleKeys) (m : Msg) (s : Sig) : Bool :=
  rk.keyids.contains s.keyid && sigOk table s m

/-- the `for signature in &role.signatures` loop with `valid` and the `valid_keyids` set -/
def verifyLoop (table : List KeyId) (rk : RoleKeys) (m : Msg) : List Sig → (Nat × List KeyId) → (Nat × List KeyId)
  | [], acc => acc
  | s :: rest, (valid, seen) =>
    if counts table rk m s then
      if seen.contains s.keyid then verifyLoop table rk m rest (valid, seen)
      else verifyLoop table rk m rest (valid + 1, s.keyid :: seen)
    else verifyLoop table rk m rest (valid, seen)

/-- `ensure!(valid >= threshold)` -/
def verify (table : List KeyId) (rk : RoleKeys) (m : Msg) (sigs : List Sig) : Bool :=
  rk.threshold ≤ (verifyLoop table rk m sigs (0, [])).1

/-- `Delegations::verify_role` as it was before the fix: no set, every valid signature counts -/
def verifyNoSet (table : List KeyId) (rk : RoleKeys) (m : Msg) (sigs : List Sig) : Bool :=
  rk.threshold ≤ (sigs.filter (counts table rk m)).length

end Tough.Sig
