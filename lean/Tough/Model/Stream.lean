/-
M3 — the two stream adapters of `tough/src/io.rs` and what a consumer that stops at the first
error (`IntoVec::into_vec`, the loop in `save_target`) gets out of them.  Import-free.

A transport stream is a list of items; `H` (SHA-256) is a parameter.
Anchors: `max_size_adapter` → `maxSize`; `DigestAdapter::poll_next` → `digestAdapter`;
`fetch_sha256` → `fetchSha256`; `try_fold` in `into_vec` / `while let Some(bytes) = stream.next()`
with `bytes?` → `consume`.
-/
namespace Tough.Stream

abbrev Bytes := List Nat

inductive ErrKind where
  | transport      -- an error item of the underlying transport
  | maxSize        -- `MaxSizeExceeded`
  | hashMismatch   -- `HashMismatch`
  deriving DecidableEq, Repr

inductive Item where
  | data (b : Bytes)
  | err (k : ErrKind)
  deriving DecidableEq, Repr

/-- `max_size_adapter`: `size` is the running total (saturating add is irrelevant for `Nat`);
the check `size > max` is made on every item, error items included -/
def maxSize (max : Nat) : Nat → List Item → List Item
  | _, [] => []
  | size, .data b :: rest =>
    let size' := size + b.length
    if size' > max then .err .maxSize :: maxSize max size' rest else .data b :: maxSize max size' rest
  | size, .err k :: rest =>
    if size > max then .err .maxSize :: maxSize max size rest else .err k :: maxSize max size rest

/-- `DigestAdapter`: items pass through while the digest context is fed; when the inner stream ends
with another digest an error item is produced (a consumer stops there) -/
def digestAdapter (H : Bytes → Nat) (expected : Nat) : Bytes → List Item → List Item
  | acc, [] => if H acc = expected then [] else [.err .hashMismatch]
  | acc, .data b :: rest => .data b :: digestAdapter H expected (acc ++ b) rest
  | acc, .err k :: rest => .err k :: digestAdapter H expected acc rest

/-- `fetch_sha256(transport, url, size, sha256)` applied to what the transport yields -/
def fetchSha256 (H : Bytes → Nat) (max expected : Nat) (s : List Item) : List Item :=
  digestAdapter H expected [] (maxSize max 0 s)

/-- a consumer that hands data on until the first error item: (bytes handed on, ended cleanly?) -/
def consume : List Item → Bytes × Bool
  | [] => ([], true)
  | .data b :: rest => let (bs, ok) := consume rest; (b ++ bs, ok)
  | .err _ :: _ => ([], false)

def noErr (s : List Item) : Bool := s.all fun i => match i with | .data _ => true | .err _ => false

def content : List Item → Bytes
  | [] => []
  | .data b :: rest => b ++ content rest
  | .err _ :: rest => content rest

end Tough.Stream
