/-
M9 — `tuftool root` sub-commands.  Model of `tuftool/src/root.rs` (init, add-key, remove-key,
set-threshold, set-version, bump-version, expire, sign) on an abstract root file; `write_file` /
`NamedTempFile::persist` are an atomic replace, so a command either replaces the file or leaves it.
Import-free.

Keys are identified by their key id (C13); a signature records which content it was made over.
-/
namespace Tough.RootCmd

inductive Role where
  | root | snapshot | targets | timestamp
  deriving DecidableEq, Repr

structure RoleKeys where
  keyids : List Nat
  threshold : Nat
  deriving DecidableEq, Repr

/-- the signed portion -/
structure Content where
  version : Nat
  expires : Nat
  keys : List Nat                      -- key table (ids)
  rootR : RoleKeys
  snapshotR : RoleKeys
  targetsR : RoleKeys
  timestampR : RoleKeys
  deriving DecidableEq, Repr

structure SigE where
  keyid : Nat
  over : Content                        -- what was signed
  deriving DecidableEq, Repr

structure RootFile where
  content : Content
  sigs : List SigE
  deriving DecidableEq, Repr

def Content.role (c : Content) : Role → RoleKeys
  | .root => c.rootR | .snapshot => c.snapshotR | .targets => c.targetsR | .timestamp => c.timestampR

def Content.setRole (c : Content) (r : Role) (rk : RoleKeys) : Content :=
  match r with
  | .root => { c with rootR := rk } | .snapshot => { c with snapshotR := rk }
  | .targets => { c with targetsR := rk } | .timestamp => { c with timestampR := rk }

inductive Cmd where
  | init (version : Option Nat)
  | addKey (keys : List Nat) (roles : List Role)
  | removeKey (id : Nat) (role : Option Role)
  | setThreshold (role : Role) (n : Nat)
  | setVersion (n : Nat)
  | bumpVersion
  | expire (t : Nat)
  | sign (keys : List Nat) (crossSign : Option RootFile) (ignoreThreshold : Bool)
  deriving Repr

def placeholder : RoleKeys := ⟨[], 1507⟩

def addKeyTo (c : Content) (roles : List Role) (k : Nat) : Content :=
  let c := if c.keys.contains k then c else { c with keys := c.keys ++ [k] }
  roles.foldl (fun c r =>
    let rk := c.role r
    if rk.keyids.contains k then c else c.setRole r { rk with keyids := rk.keyids ++ [k] }) c

def removeFirst (k : Nat) : List Nat → List Nat
  | [] => []
  | x :: xs => if x = k then xs else x :: removeFirst k xs

/-- one entry per key id (`HashMap` of the keys found) -/
def dedup : List Nat → List Nat
  | [] => []
  | k :: ks => if ks.contains k then dedup ks else k :: dedup ks

def allRoles : List Role := [.root, .snapshot, .targets, .timestamp]

/-- maximum u64 (bump-version fails on overflow) -/
def u64Max : Nat := 18446744073709551615

/-- one sub-command: `none` = exit with an error, the file is left as it was -/
def step (file : Option RootFile) : Cmd → Option RootFile
  | .init v =>
    (match v with
     | some 0 => none            -- `NonZeroU64::new(0).unwrap()` aborts
     | _ => some ⟨⟨v.getD 1, 0, [], placeholder, placeholder, placeholder, placeholder⟩, []⟩)
  | .addKey keys roles => file.map fun f => ⟨keys.foldl (fun c k => addKeyTo c roles k) f.content, []⟩
  | .removeKey id role => file.map fun f =>
    (match role with
     | some r => ⟨f.content.setRole r { f.content.role r with keyids := removeFirst id (f.content.role r).keyids }, []⟩
     | none =>
       let c := allRoles.foldl (fun c r => c.setRole r { c.role r with keyids := removeFirst id (c.role r).keyids }) f.content
       ⟨{ c with keys := c.keys.filter (· ≠ id) }, []⟩)
  | .setThreshold r n => if n = 0 then none else file.map fun f => ⟨f.content.setRole r { f.content.role r with threshold := n }, []⟩
  | .setVersion n => if n = 0 then none else file.map fun f => ⟨{ f.content with version := n }, []⟩
  | .bumpVersion => file.bind fun f => if f.content.version ≥ u64Max then none else some ⟨{ f.content with version := f.content.version + 1 }, []⟩
  | .expire t => file.map fun f => ⟨{ f.content with expires := t }, []⟩
  | .sign keys cross ignore => file.bind fun f =>
    let holder := (cross.map (·.content)).getD f.content
    -- `get_root_keys`: the provided keys that are in the key holder's key table
    let known := keys.filter holder.keys.contains
    if known.isEmpty then none
    else
      -- `SignedRole::new`: one signature per distinct provided key that the holder lists for root
      let signers := dedup (known.filter holder.rootR.keyids.contains)
      let fresh : List SigE := signers.map fun k => ⟨k, f.content⟩
      -- `add_old_signatures`
      let sigs := fresh ++ f.sigs.filter fun s => !(fresh.any fun n => n.keyid == s.keyid)
      -- every role must list at least `threshold` key ids
      let unstable := allRoles.any fun r => decide ((f.content.role r).threshold > (f.content.role r).keyids.length)
      if unstable && !ignore then none
      else
        -- signatures by keys this file authorizes for its root role
        let count := (sigs.filter fun s => f.content.rootR.keyids.contains s.keyid && f.content.keys.contains s.keyid).length
        if f.content.rootR.threshold > count && !ignore then none
        else some ⟨f.content, sigs⟩

/-- the count as it was before the fix: every signature entry in the file -/
def signOld (f : RootFile) (keys : List Nat) (cross : Option RootFile) (ignore : Bool) : Option RootFile :=
  let holder := (cross.map (·.content)).getD f.content
  let known := keys.filter holder.keys.contains
  if known.isEmpty then none
  else
    let signers := dedup (known.filter holder.rootR.keyids.contains)
    let fresh : List SigE := signers.map fun k => ⟨k, f.content⟩
    let sigs := fresh ++ f.sigs.filter fun s => !(fresh.any fun n => n.keyid == s.keyid)
    let unstable := allRoles.any fun r => decide ((f.content.role r).threshold > (f.content.role r).keyids.length)
    if unstable && !ignore then none
    else if f.content.rootR.threshold > sigs.length && !ignore then none
    else some ⟨f.content, sigs⟩

/-- the file after a command: replaced on success, untouched on failure -/
def apply (file : Option RootFile) (c : Cmd) : Option RootFile × Bool :=
  match step file c with
  | some f => (some f, true)
  | none => (file, false)

/-- `Root::verify_role` of the file under itself: distinct key ids, authorized for root, present in
the key table, with a signature over the current content -/
def selfVerifies (f : RootFile) : Bool :=
  let valid := ((dedup f.content.rootR.keyids).filter fun k =>
    f.content.keys.contains k && f.sigs.any fun s => s.keyid == k && s.over == f.content)
  decide (f.content.rootR.threshold ≤ valid.length)

end Tough.RootCmd
