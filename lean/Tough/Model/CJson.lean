/-
M1 — canonical JSON.  Model of `olpc-cjson/src/lib.rs` (`CanonicalFormatter`) together with the
sequence of `serde_json::ser::Formatter` call-backs that `serde_json::Serializer` drives for a
JSON value (`emit`).  Import-free (core Lean only) so that it links into the `lean_exe` driver.

Representation: bytes and Unicode scalar values are `Nat`s; a string is the list of its scalar
values; `nfc` (Unicode NFC normalisation of one string *fragment*) is a parameter.

Anchors (Rust → Lean):
  `Object { obj, next_key, next_value, key_done }`          → `Obj`
  `CanonicalFormatter { object_stack }` + the outer writer   → `St`
  `CanonicalFormatter::writer`                               → `St.write`
  every `Formatter` method                                   → `step`
  `end_object_value` (insert into the `BTreeMap`)            → `mapInsert` keyed by `sortKey`
  `end_object` (pop, write members in map order)             → `renderMembers`
  serde_json `Serializer::serialize_*` / `format_escaped_str`→ `emit`, `emitStr`
-/
namespace Tough.CJson

abbrev Bytes := List Nat
/-- a string: list of Unicode scalar values -/
abbrev Str := List Nat

/-- UTF-8 encoding of one scalar value (`char::encode_utf8`). -/
def utf8 (c : Nat) : Bytes :=
  if c < 0x80 then [c]
  else if c < 0x800 then [0xC0 + c / 64, 0x80 + c % 64]
  else if c < 0x10000 then [0xE0 + c / 4096, 0x80 + (c / 64) % 64, 0x80 + c % 64]
  else [0xF0 + c / 262144, 0x80 + (c / 4096) % 64, 0x80 + (c / 64) % 64, 0x80 + c % 64]

def utf8s (s : Str) : Bytes := s.flatMap utf8

mutual
/-- A JSON value as handed to the serializer: members in *emission* order, duplicates allowed. -/
inductive JVal where
  | null
  | bool (b : Bool)
  | int (i : Int)
  | float                      -- any floating point number (its value is irrelevant: refused)
  | str (s : Str)
  | arr (xs : JList)
  | obj (ms : JMembers)
inductive JList where
  | nil
  | cons (v : JVal) (rest : JList)
inductive JMembers where
  | nil
  | cons (k : Str) (v : JVal) (rest : JMembers)
end

/-- serde_json's `ESCAPE` table: bytes that `format_escaped_str_contents` hands to
`write_char_escape` instead of including them in a fragment. -/
def needsEscape (c : Nat) : Bool := c < 0x20 || c == 0x22 || c == 0x5C

/-- the call-backs of `serde_json::ser::Formatter` that `CanonicalFormatter` distinguishes -/
inductive Ev where
  | writeNull
  | writeBool (b : Bool)
  | writeInt (i : Int)
  | writeFloat
  | beginString
  | endString
  | fragment (s : Str)          -- `write_string_fragment` (never empty)
  | charEscape (c : Nat)        -- `write_char_escape` for the scalar `c` (`needsEscape c`)
  | beginArray
  | endArray
  | beginArrayValue (first : Bool)
  | endArrayValue
  | beginObject
  | endObject
  | beginObjectKey (first : Bool)
  | endObjectKey
  | beginObjectValue
  | endObjectValue
  deriving Repr, DecidableEq

/-- `format_escaped_str_contents`: maximal runs of non-escaped characters become fragments,
each escaped character its own call. `acc` is the current run, in reverse. -/
def flushFrag (acc : Str) : List Ev := if acc.isEmpty then [] else [.fragment acc.reverse]
def emitStrContents : Str → Str → List Ev
  | [], acc => flushFrag acc
  | c :: cs, acc =>
    if needsEscape c then flushFrag acc ++ .charEscape c :: emitStrContents cs []
    else emitStrContents cs (c :: acc)

/-- `format_escaped_str` -/
def emitStr (s : Str) : List Ev := .beginString :: emitStrContents s [] ++ [.endString]

mutual
/-- the call-back sequence of `value.serialize(&mut Serializer::with_formatter(..))` -/
def emit : JVal → List Ev
  | .null => [.writeNull]
  | .bool b => [.writeBool b]
  | .int i => [.writeInt i]
  | .float => [.writeFloat]
  | .str s => emitStr s
  | .arr xs => .beginArray :: emitList true xs ++ [.endArray]
  | .obj ms => .beginObject :: emitMembers true ms ++ [.endObject]
def emitList (first : Bool) : JList → List Ev
  | .nil => []
  | .cons v rest => .beginArrayValue first :: emit v ++ .endArrayValue :: emitList false rest
def emitMembers (first : Bool) : JMembers → List Ev
  | .nil => []
  | .cons k v rest =>
    .beginObjectKey first :: emitStr k ++ .endObjectKey :: .beginObjectValue :: emit v
      ++ .endObjectValue :: emitMembers false rest
end

/-! ### The formatter state machine -/

/-- lexicographic `<` on byte strings (`Ord for Vec<u8>`) -/
def bytesLt : Bytes → Bytes → Bool
  | [], [] => false
  | [], _ :: _ => true
  | _ :: _, [] => false
  | a :: as, b :: bs => if a < b then true else if b < a then false else bytesLt as bs

/-- One entry of the `BTreeMap`: sort key, serialized key text, serialized value. -/
abbrev Entry := Bytes × Bytes × Bytes

/-- `BTreeMap::insert` on a sorted association list: replaces an equal key. -/
def mapInsert (k : Bytes) (kt v : Bytes) : List Entry → List Entry
  | [] => [(k, kt, v)]
  | (k', kt', v') :: rest =>
    if bytesLt k k' then (k, kt, v) :: (k', kt', v') :: rest
    else if bytesLt k' k then (k', kt', v') :: mapInsert k kt v rest
    else (k, kt, v) :: rest

/-- Removes the surrounding quotation marks of a serialized key and undoes the two escapes the
formatter produces; this is the string content the map is ordered by (`sort_key` in the code). -/
def unescape : Bytes → Bytes
  | [] => []
  | [c] => if c == 0x5C then [] else [c]
  | a :: b :: rest => if a == 0x5C then b :: unescape rest else a :: unescape (b :: rest)

def stripQuotes (b : Bytes) : Bytes :=
  match b with
  | 0x22 :: rest =>
    (match rest.reverse with
     | 0x22 :: r => r.reverse
     | _ => b)
  | _ => b

def sortKey (serializedKey : Bytes) : Bytes := unescape (stripQuotes serializedKey)

structure Obj where
  obj : List Entry := []
  nextKey : Bytes := []
  nextValue : Bytes := []
  keyDone : Bool := false
  deriving Repr, DecidableEq

structure St where
  stack : List Obj := []      -- head = top of `object_stack`
  out : Bytes := []           -- the writer handed to the serializer
  deriving Repr, DecidableEq

inductive Err where
  | float          -- "floating point numbers are not allowed in canonical JSON"
  | noObject       -- "serde_json called an object method without calling begin_object first"
  deriving Repr, DecidableEq

/-- `CanonicalFormatter::writer` followed by `write_all` -/
def St.write (st : St) (b : Bytes) : St :=
  match st.stack with
  | [] => { st with out := st.out ++ b }
  | o :: rest =>
    if o.keyDone then { st with stack := { o with nextValue := o.nextValue ++ b } :: rest }
    else { st with stack := { o with nextKey := o.nextKey ++ b } :: rest }

/-- shortest decimal representation (`itoa`) -/
def natBytes (n : Nat) : Bytes := (Nat.toDigits 10 n).map Char.toNat
def intBytes (i : Int) : Bytes :=
  if i < 0 then 0x2D :: natBytes i.natAbs else natBytes i.natAbs

/-- what `end_object` writes: `{` was written at `begin_object`; members in map order -/
def renderMembers : Bool → List Entry → Bytes
  | _, [] => []
  | first, (_, kt, v) :: rest =>
    (if first then [] else [0x2C]) ++ kt ++ [0x3A] ++ v ++ renderMembers false rest

/-- `write_char_escape`: only `"` and `\` get a backslash, everything else is written literally -/
def escBytes (c : Nat) : Bytes := if c == 0x22 || c == 0x5C then [0x5C, c] else [c]

/-- One `Formatter` method call. `nfc` normalises one string fragment. -/
def step (nfc : Str → Str) (st : St) : Ev → Except Err St
  | .writeNull => .ok (st.write [0x6E, 0x75, 0x6C, 0x6C])
  | .writeBool true => .ok (st.write [0x74, 0x72, 0x75, 0x65])
  | .writeBool false => .ok (st.write [0x66, 0x61, 0x6C, 0x73, 0x65])
  | .writeInt i => .ok (st.write (intBytes i))
  | .writeFloat => .error .float
  | .beginString => .ok (st.write [0x22])
  | .endString => .ok (st.write [0x22])
  | .fragment s => .ok (st.write (utf8s (nfc s)))
  | .charEscape c => .ok (st.write (escBytes c))
  | .beginArray => .ok (st.write [0x5B])
  | .endArray => .ok (st.write [0x5D])
  | .beginArrayValue first => .ok (if first then st else st.write [0x2C])
  | .endArrayValue => .ok st
  | .beginObject =>
    let st' := st.write [0x7B]
    .ok { st' with stack := {} :: st'.stack }
  | .endObject =>
    match st.stack with
    | [] => .error .noObject
    | o :: rest =>
      let st' : St := { st with stack := rest }
      .ok (st'.write (renderMembers true o.obj ++ [0x7D]))
  | .beginObjectKey _ =>
    match st.stack with
    | [] => .error .noObject
    | o :: rest => .ok { st with stack := { o with keyDone := false } :: rest }
  | .endObjectKey =>
    match st.stack with
    | [] => .error .noObject
    | o :: rest => .ok { st with stack := { o with keyDone := true } :: rest }
  | .beginObjectValue => .ok st
  | .endObjectValue =>
    match st.stack with
    | [] => .error .noObject
    | o :: rest =>
      .ok { st with stack :=
        { o with obj := mapInsert (sortKey o.nextKey) o.nextKey o.nextValue o.obj,
                 nextKey := [], nextValue := [] } :: rest }

def run (nfc : Str → Str) : St → List Ev → Except Err St
  | st, [] => .ok st
  | st, e :: es =>
    match step nfc st e with
    | .ok st' => run nfc st' es
    | .error err => .error err

/-- Serialise a value with the canonical formatter: the bytes in the writer at the end. -/
def encode (nfc : Str → Str) (v : JVal) : Except Err Bytes :=
  match run nfc {} (emit v) with
  | .ok st => .ok st.out
  | .error e => .error e

/-! ### The formatter as it was before the fix (map keyed by the serialized key text, i.e. by
the quoted and escaped representation).  Kept only for the witness theorem in `Props/C11`. -/

def stepOld (nfc : Str → Str) (st : St) : Ev → Except Err St
  | .endObjectValue =>
    match st.stack with
    | [] => .error .noObject
    | o :: rest =>
      .ok { st with stack :=
        { o with obj := mapInsert o.nextKey o.nextKey o.nextValue o.obj,
                 nextKey := [], nextValue := [] } :: rest }
  | e => step nfc st e

def runOld (nfc : Str → Str) : St → List Ev → Except Err St
  | st, [] => .ok st
  | st, e :: es =>
    match stepOld nfc st e with
    | .ok st' => runOld nfc st' es
    | .error err => .error err

def encodeOld (nfc : Str → Str) (v : JVal) : Except Err Bytes :=
  match runOld nfc {} (emit v) with
  | .ok st => .ok st.out
  | .error e => .error e

end Tough.CJson
