/-
M6 — file names of metadata.  Model of `encode_filename` (lib.rs: `utf8_percent_encode` with
`NON_ALPHANUMERIC` minus `_ . - ~`), `DelegatedTargets::filename` (schema/mod.rs),
`Repository::delegated_filename` (cache.rs), the role path in `load_delegations`, and the names of
the top-level files.  Import-free.  A role name is its UTF-8 byte string (`List Nat`, bytes < 256).
-/
namespace Tough.FileName

def isAlnum (b : Nat) : Bool := (48 ≤ b && b ≤ 57) || (65 ≤ b && b ≤ 90) || (97 ≤ b && b ≤ 122)

/-- bytes that are NOT escaped: letters, digits and `_ . - ~` -/
def safeByte (b : Nat) : Bool := isAlnum b || b == 95 || b == 46 || b == 45 || b == 126

/-- upper-case hex digit as a byte -/
def hexDigit (n : Nat) : Nat := if n < 10 then 48 + n else 55 + n

/-- one byte of the name → one or three bytes of the file name -/
def encByte (b : Nat) : List Nat := if safeByte b then [b] else [37, hexDigit (b / 16), hexDigit (b % 16)]

def encodeFilename (name : List Nat) : List Nat := name.flatMap encByte

def hexVal (d : Nat) : Nat := if d ≤ 57 then d - 48 else d - 55

/-- percent-decoding (left inverse of `encodeFilename`) -/
def decode : List Nat → List Nat
  | [] => []
  | [c] => [c]
  | [c, d] => c :: decode [d]
  | c :: a :: b :: rest =>
    if c = 37 then (hexVal a * 16 + hexVal b) :: decode rest else c :: decode (a :: b :: rest)

/-- decimal digits of a version number (`fuel` = the number itself is always enough) -/
def digitsAux : Nat → Nat → List Nat
  | 0, v => [48 + v % 10]
  | f + 1, v => if v < 10 then [48 + v] else digitsAux f (v / 10) ++ [48 + v % 10]

def digits (v : Nat) : List Nat := digitsAux v v

def dotJson : List Nat := [46, 106, 115, 111, 110]

/-- the file a delegated role's metadata is requested from / stored in / cached to / written to -/
def roleFile (consistent : Bool) (v : Nat) (name : List Nat) : List Nat :=
  (if consistent then digits v ++ [46] else []) ++ encodeFilename name ++ dotJson

def str (s : String) : List Nat := s.toList.map Char.toNat

/-- the files of the top-level roles -/
def rootFile (n : Nat) : List Nat := digits n ++ str ".root.json"
def timestampFile : List Nat := str "timestamp.json"
def snapshotFile (consistent : Bool) (v : Nat) : List Nat := (if consistent then digits v ++ [46] else []) ++ str "snapshot.json"
def targetsFile (consistent : Bool) (v : Nat) : List Nat := (if consistent then digits v ++ [46] else []) ++ str "targets.json"

end Tough.FileName
