/-
The OLPC canonical form as a short recursive specification (`canon`), independent of the
formatter state machine in `Model/CJson.lean`.  Import-free (used by the driver too).

  * no insignificant whitespace;
  * object members ordered by the code points of their normalised keys (`strLt`);
  * strings normalised, only `"` and `\` escaped (`escStr`);
  * integers in shortest decimal form (`intBytes`);
  * floating point refused (`none`).
-/
import Tough.Model.CJson
namespace Tough.CJson

/-- lexicographic `<` by code points -/
def strLt : Str → Str → Bool
  | [], [] => false
  | [], _ :: _ => true
  | _ :: _, [] => false
  | a :: as, b :: bs => if a < b then true else if b < a then false else strLt as bs

/-- Normalisation of a whole string in terms of the fragment normaliser: maximal runs of
characters outside serde_json's escape table are normalised, the escaped characters (control
characters, `"`, `\`) stand for themselves.  For Unicode NFC this is NFC of the whole string:
all of those characters are starters that take part in no canonical composition. -/
def normStrAux (nfc : Str → Str) : Str → Str → Str
  | [], acc => if acc.isEmpty then [] else nfc acc.reverse
  | c :: cs, acc =>
    if needsEscape c then (if acc.isEmpty then [] else nfc acc.reverse) ++ c :: normStrAux nfc cs []
    else normStrAux nfc cs (c :: acc)
def normStr (nfc : Str → Str) (s : Str) : Str := normStrAux nfc s []

/-- string content: only quotation mark and backslash are escaped; everything else is UTF-8 -/
def escChar (c : Nat) : Bytes := if c == 0x22 || c == 0x5C then [0x5C, c] else utf8 c
def escStr (s : Str) : Bytes := s.flatMap escChar
def quote (s : Str) : Bytes := 0x22 :: escStr s ++ [0x22]

/-- A member of a normalised object: normalised key and canonical bytes of the value. -/
abbrev Member := Str × Bytes

/-- insertion into a list sorted by key code points; an equal key is replaced (last wins) -/
def memInsert (k : Str) (v : Bytes) : List Member → List Member
  | [] => [(k, v)]
  | (k', v') :: rest =>
    if strLt k k' then (k, v) :: (k', v') :: rest
    else if strLt k' k then (k', v') :: memInsert k v rest
    else (k, v) :: rest

def sortMembers (ms : List Member) : List Member := ms.foldl (fun acc m => memInsert m.1 m.2 acc) []

def renderCanon : Bool → List Member → Bytes
  | _, [] => []
  | first, (k, v) :: rest =>
    (if first then [] else [0x2C]) ++ quote k ++ [0x3A] ++ v ++ renderCanon false rest

mutual
/-- the OLPC canonical form of a value; `none` iff it contains a floating point number -/
def canon (nfc : Str → Str) : JVal → Option Bytes
  | .null => some [0x6E, 0x75, 0x6C, 0x6C]
  | .bool true => some [0x74, 0x72, 0x75, 0x65]
  | .bool false => some [0x66, 0x61, 0x6C, 0x73, 0x65]
  | .int i => some (intBytes i)
  | .float => none
  | .str s => some (quote (normStr nfc s))
  | .arr xs => (canonList nfc true xs).map fun b => 0x5B :: b ++ [0x5D]
  | .obj ms => (canonMembers nfc ms).map fun es => 0x7B :: renderCanon true (sortMembers es) ++ [0x7D]
/-- elements separated by commas -/
def canonList (nfc : Str → Str) (first : Bool) : JList → Option Bytes
  | .nil => some []
  | .cons v rest =>
    match canon nfc v, canonList nfc false rest with
    | some b, some bs => some ((if first then [] else [0x2C]) ++ b ++ bs)
    | _, _ => none
/-- members in emission order: normalised key, canonical value -/
def canonMembers (nfc : Str → Str) : JMembers → Option (List Member)
  | .nil => some []
  | .cons k v rest =>
    match canon nfc v, canonMembers nfc rest with
    | some b, some es => some ((normStr nfc k, b) :: es)
    | _, _ => none
end

mutual
def hasFloat : JVal → Bool
  | .float => true
  | .arr xs => hasFloatL xs
  | .obj ms => hasFloatM ms
  | _ => false
def hasFloatL : JList → Bool
  | .nil => false
  | .cons v rest => hasFloat v || hasFloatL rest
def hasFloatM : JMembers → Bool
  | .nil => false
  | .cons _ v rest => hasFloat v || hasFloatM rest
end

mutual
/-- every scalar value (in strings and keys) is a Unicode scalar value as far as the encoder is
concerned (`< 0x110000`; Rust's `char` guarantees it) -/
def validJ : JVal → Bool
  | .str s => s.all (· < 0x110000)
  | .arr xs => validL xs
  | .obj ms => validM ms
  | _ => true
def validL : JList → Bool
  | .nil => true
  | .cons v rest => validJ v && validL rest
def validM : JMembers → Bool
  | .nil => true
  | .cons k v rest => k.all (· < 0x110000) && validJ v && validM rest
end

end Tough.CJson
