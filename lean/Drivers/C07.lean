import Tough.Driver.ClientJson
import Tough.Model.Glob
import Tough.Model.Save
open Lean Tough.Driver Tough.Driver.ClientJson Tough.Client Tough.Glob

structure NameInfo where
  resolved : List Char
  hex : List Char

inductive PathSetIn where
  | patterns (ps : List (List Char))
  | prefixes (ps : List (List Char))

def matchesName (ps : PathSetIn) (n : NameInfo) : Bool :=
  match ps with
  | .patterns l => l.any fun p => globMatch p n.resolved
  | .prefixes l => l.any fun p => hashPrefixMatch n.hex p

def patchDeleg (names : List NameInfo) (sets : List (Nat × PathSetIn)) (d : Deleg) : Deleg :=
  { d with roles := d.roles.map fun r =>
      match sets.lookup r.name with
      | some ps => { r with paths := (List.range names.length).filter fun i =>
          match names[i]? with | some n => matchesName ps n | none => false }
      | none => r }

def patchServer (names : List NameInfo) (sets : List (Nat × PathSetIn)) (srv : Server) : Server :=
  srv.map fun (n, r) =>
    match r with
    | .file f =>
      (match f.content with
       | .targets doc => (n, .file { f with content := .targets { doc with deleg := doc.deleg.map (patchDeleg names sets) } })
       | _ => (n, r))
    | _ => (n, r)

def handle (j : Json) : Except String Json := do
  let input ← j.getObjVal? "input"
  let impl ← j.getObjVal? "impl"
  let names ← (← getArr input "names").mapM fun x => do
    let raw := (← getNatArr (← x.getObjVal? "raw")).map Char.ofNat
    let res ← match Tough.Save.cleanName raw with
      | .ok r => pure r
      | .error _ => throw "name refused"
    pure ({ resolved := res, hex := (← (← x.getObjVal? "hex").getStr?).toList } : NameInfo)
  let sets ← (← getArr input "pathsets").mapM fun x => do
    let pr ← x.getArr?
    let idx ← pr[0]!.getNat?
    let body := pr[1]!
    let ps ← match optField body "patterns" with
      | some p => do pure (PathSetIn.patterns ((← (← p.getArr?).toList.mapM (·.getStr?)).map String.toList))
      | none => do pure (PathSetIn.prefixes ((← (← getArr body "prefixes").mapM (·.getStr?)).map String.toList))
    pure (idx, ps)
  let cyc ← parseCycle (← input.getObjVal? "cycle")
  let srv := patchServer names sets cyc.server
  let (r, st) := cycle cyc.cfg srv cyc.shipped { ds := {} }
  let obs := cycleObs r st
  let finds : List Json := match r with
    | .ok v => (List.range names.length).map fun i =>
        match Tgt.find i v.tgt with
        | some e => (e.hash : Json)
        | none => Json.null
    | .error _ => []
  let mres ← (← obs.getObjVal? "res").getStr?
  let ires ← (← impl.getObjVal? "res").getStr?
  let ifinds := match optField impl "finds" with | some (.arr a) => a.toList | _ => []
  let agree := (mres == "ok") == (ires == "ok") && (mres != "ok" || ifinds == finds) &&
    optField impl "roles" == optField obs "roles"
  -- the property: validation verdict and, for every name, the entry that is served
  let spec := (mres == "ok") == (ires == "ok") && (mres != "ok" || ifinds == finds)
  pure (Json.mkObj [("model", obs.setObjVal! "finds" (Json.arr finds.toArray)), ("agree", agree),
    ("spec_on_impl", spec), ("spec_on_model", true), ("tags", Json.arr #[Json.str mres])])

def main : IO Unit := runDriver handle
