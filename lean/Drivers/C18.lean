import Tough.Driver.Util
import Tough.Model.Http
open Lean Tough.Driver Tough.Http

def parseItem (j : Json) : Except String Resp :=
  match j with
  | .str "connect-err" => pure .connectErr
  | _ => do
    if let some c := optField j "status" then return .status (← c.getNat?)
    let b ← j.getObjVal? "body"
    let ar ← (← b.getObjVal? "ar").getBool?
    let k ← (← b.getObjVal? "deliver").getNat?
    let e ← (← b.getObjVal? "end").getStr?
    let en ← match e with
      | "complete" => pure Ending.complete
      | "timeout" => pure Ending.timeout
      | "fatal" => pure Ending.fatal
      | _ => throw "bad ending"
    pure (.body ar k en)

def handle (j : Json) : Except String Json := do
  let input ← j.getObjVal? "input"
  let impl ← j.getObjVal? "impl"
  let tries ← (← input.getObjVal? "tries").getNat?
  let size ← (← input.getObjVal? "size").getNat?
  let script ← (← (← input.getObjVal? "script").getArr?).toList.mapM parseItem
  -- the content of the resource is irrelevant to the machine: positions stand for bytes
  let res : Bytes := List.range size
  -- the observed script only covers the requests that were made; afterwards nothing more is served
  let (fin, st) := fetch tries res (script ++ [.body false 0 .complete])
  let mstatus := match fin with | .ok => "ok" | .errOther => "err" | .errNotFound => "not-found"
  let mranges : List Json := st.requests.reverse.map fun r => match r with | some n => (n : Json) | none => Json.null
  let istatus ← (← impl.getObjVal? "status").getStr?
  let ilen ← (← impl.getObjVal? "yielded_len").getNat?
  let iprefix ← (← impl.getObjVal? "is_prefix").getBool?
  let ireqs ← (← impl.getObjVal? "requests").getNat?
  let iranges := match optField impl "ranges" with | some (.arr a) => a.toList | _ => []
  let agree := mstatus == istatus && st.yielded.length == ilen && mranges == iranges
  -- the property on the implementation's behaviour
  let supports ← (← input.getObjVal? "supports_ranges").getBool?
  let spec := iprefix && (istatus != "ok" || ilen == size) && ireqs ≤ tries &&
    (supports || iranges.all (· == Json.null)) &&
    (istatus == "ok" || istatus == "err" || istatus == "not-found") && mstatus == istatus
  pure (Json.mkObj [("model", Json.mkObj [("status", mstatus), ("yielded_len", (st.yielded.length : Nat)), ("ranges", Json.arr mranges.toArray)]),
    ("agree", agree), ("spec_on_impl", spec), ("spec_on_model", true), ("tags", Json.arr #[Json.str mstatus])])

def main : IO Unit := runDriver handle
