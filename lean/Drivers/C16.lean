import Tough.Driver.Util
import Tough.Model.FileName
import Std.Data.HashMap
open Lean Tough.Driver Tough.FileName

def bytesToString (b : List Nat) : String := String.ofList (b.map Char.ofNat)

def isPlain (s : String) : Bool :=
  s != "" && s != "." && s != ".." && !(s.toList.any fun c => c == '/' || c == '\x00')

def topLevelNames : List String := ["root", "timestamp", "snapshot", "targets"]

/-- one case; `seen` maps (mode, file name) to the role name that produced it -/
def handle (seen : Std.HashMap String String) (j : Json) : Except String (Json × Std.HashMap String String) := do
  let input ← j.getObjVal? "input"
  let impl ← j.getObjVal? "impl"
  let name ← getNatArr (← input.getObjVal? "name")
  let cs ← (← input.getObjVal? "cs").getBool?
  let v ← (← input.getObjVal? "version").getNat?
  let file := bytesToString (roleFile cs v name)        -- all bytes are ASCII
  let nameS := toString name
  let strs (k : String) : Except String (List String) := do
    (← (← impl.getObjVal? k).getArr?).toList.mapM (·.getStr?)
  let editor ← (← impl.getObjVal? "editor").getStr?
  let reqs ← strs "requests"
  let ds ← strs "datastore"
  let cache ← strs "cache"
  let cacheReqs : List String := match optField impl "cache_requests" with
    | some (.arr a) => a.toList.filterMap fun x => x.getStr?.toOption
    | _ => []
  let outside ← (← impl.getObjVal? "outside").getBool?
  let loaded := (← (← impl.getObjVal? "load").getStr?) == "ok"
  -- every observed entry is the model's file name
  let sameAs (l : List String) := l.all (· == file)
  -- file names the harness cannot tell apart from the top-level files it filters out of its listings
  let masked := ["1.root.json", "2.root.json", "root.json", "timestamp.json", "snapshot.json", "targets.json",
    "1.snapshot.json", "1.targets.json", "latest_known_time.json"].contains file
  let agree := editor == file && sameAs reqs && sameAs ds && sameAs cache && sameAs cacheReqs &&
    (!loaded || masked || (reqs == [file] && ds == [file] && cache == [file]))
  -- the property: plain entries directly inside the directories, nothing outside
  -- the file transport read something although the file was absent under its (encoded) name
  let fsFallback := optField impl "fs_fallback" == some (Json.bool true)
  let plain := isPlain editor && reqs.all isPlain && ds.all isPlain && cache.all isPlain && cacheReqs.all isPlain && !outside && !fsFallback
  -- no collision with another role name (same naming mode), nor with a top-level role's file
  -- (every file name observed at ANY site — editor, request, datastore, cache — belongs to this role alone)
  let key := (if cs then "cs:" else "plain:") ++ editor
  let keysOf (l : List String) := l.map fun f => (if cs then "cs:" else "plain:") ++ f
  let allKeys := (key :: (keysOf reqs ++ keysOf ds ++ keysOf cache ++ keysOf cacheReqs)).eraseDups
  let clash := allKeys.any fun k => match seen[k]? with
    | some other => other != nameS
    | none => false
  let nameStr := bytesToString name
  let reserved : List String :=
    if cs then [bytesToString (snapshotFile true v), bytesToString (targetsFile true v), "timestamp.json"]
    else ["snapshot.json", "targets.json", "timestamp.json"]
  let isRootFile := editor.endsWith ".root.json" &&
    ((editor.dropRight ".root.json".length).toList.all Char.isDigit) && editor.length > ".root.json".length
  let hitsTopLevel := (reserved.contains editor || isRootFile) && !(topLevelNames.contains nameStr)
  let spec := plain && !clash && !hitsTopLevel
  let seen' := allKeys.foldl (fun m k => if m.contains k then m else m.insert k nameS) seen
  pure (Json.mkObj [("model", Json.mkObj [("file", file)]), ("agree", agree), ("spec_on_impl", spec),
    ("spec_on_model", Json.bool (isPlain file)),
    ("tags", Json.arr #[Json.str (if loaded then "loaded" else "load-failed")])], seen')

partial def loop (h : IO.FS.Stream) (out : IO.FS.Stream) (seen : Std.HashMap String String) : IO Unit := do
  let line ← h.getLine
  if line.isEmpty then return ()
  let t := line.trimAscii.toString
  if t.isEmpty then loop h out seen else
  match Json.parse t with
  | .error e => out.putStrLn (Json.mkObj [("internal_error", Json.str s!"parse: {e}")]).compress; loop h out seen
  | .ok j =>
    let id := (optField j "id").getD Json.null
    match handle seen j with
    | .ok (r, seen') => out.putStrLn (r.setObjVal! "id" id).compress; loop h out seen'
    | .error e => out.putStrLn (Json.mkObj [("id", id), ("internal_error", Json.str e)]).compress; loop h out seen

def main : IO Unit := do loop (← IO.getStdin) (← IO.getStdout) {}
