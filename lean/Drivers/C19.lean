/- C19 driver: load, decide what `cache` copies, load the copy. -/
import Tough.Driver.ClientJson
import Tough.Model.Cache
open Lean Tough.Driver Tough.Driver.ClientJson Tough.Client Tough.Cache Tough.Sig

def strField (j : Json) (k : String) : String :=
  match optField j k with
  | some (.str s) => s
  | _ => ""

def strList (j : Json) (k : String) : List String :=
  match optField j k with
  | some (.arr a) => a.toList.filterMap fun x => match x with | .str s => some s | _ => none
  | _ => []

def boolList (j : Json) (k : String) : List Bool :=
  match optField j k with
  | some (.arr a) => a.toList.map fun x => x == Json.bool true
  | _ => []

def insertSorted (s : String) : List String → List String
  | [] => [s]
  | a :: rest => if s ≤ a then s :: a :: rest else a :: insertSorted s rest
def sortStrings (l : List String) : List String := l.foldr insertSorted []

def handle (j : Json) : Except String Json := do
  let input ← j.getObjVal? "input"
  let impl ← j.getObjVal? "impl"
  let c ← parseCycle (← input.getObjVal? "cycle")
  let chain ← getBool input "chain"
  let n ← getNat input "ntargets"
  let subset : Option (List Nat) ← match optField input "subset" with
    | some (.arr a) => do pure (some (← a.toList.mapM (·.getNat?)))
    | _ => pure none
  let corrupted : Option Nat := (optField input "corrupted").bind fun x => x.getNat?.toOption
  let needsEscape := boolList input "needs_escape"
  let (r, _) := cycle c.cfg c.server c.shipped { ds := {} }
  match r with
  | .error e =>
    let agree := strField impl "load" == errTag e
    pure (Json.mkObj [("model", Json.mkObj [("load", errTag e)]), ("agree", agree), ("spec_on_impl", true), ("spec_on_model", true),
      ("tags", Json.arr #["source-refused"])])
  | .ok v =>
    let files := metaFiles v chain
    let cached := cachedTargets v subset
    let targetsOk := match corrupted with | some ci => !cached.contains ci | none => true
    let metaOk := files.all (copyable c.server)
    let cacheOk := targetsOk && metaOk
    let labels := sortStrings (files.map nameLabel).eraseDups
    -- the copy, loaded with the shipped root (chain copied) or the trusted root
    let srv2 := cachedServer c.server files
    let shipped2 := if chain then c.shipped else some v.root
    let (r2, _) := cycle c.cfg srv2 shipped2 { ds := {} }
    -- hypothesis of `cached_copy_loads_alike`, evaluated: every file the loading cycle requests from the
    -- SOURCE was copied, or the source does not have it
    let (_, stSrc) := cycle c.cfg c.server shipped2 { ds := {} }
    let reqsSrc := stSrc.log.filterMap fun e => match e with | .req f => some f | _ => none
    let covered := reqsSrc.all fun f => files.contains f || c.server.get f == .notFound
    let reloadJ : Json := match r2 with
      | .ok w => Json.mkObj [("res", "ok"), ("versions", Json.arr #[(w.root.version : Json), (w.ts.version : Json), (w.snap.version : Json), ((Tgt.doc w.tgt).version : Json)])]
      | .error e => Json.mkObj [("res", errTag e)]
    let model := Json.mkObj [("cache_ok", cacheOk), ("meta_files", Json.arr (labels.map Json.str).toArray),
      ("cached_targets", natArr cached), ("reload", reloadJ)]
    -- the implementation
    let icache := strField impl "cache" == "ok"
    let imeta := sortStrings (strList impl "meta_files")
    let istates := strList impl "targets"
    let ireads := strList impl "reads"
    let ireload := (optField impl "reload").getD Json.null
    let noStray := (optField impl "unexpected_target_files") == some (Json.arr #[]) && (optField impl "escaped") == some (Json.arr #[])
    let idx := List.range n
    if strField input "kind" == "readback-escaped-names" then
      -- only the read-back of cached targets whose names need URL escaping
      let ok := idx.all fun i => !(cached.contains i && needsEscape.getD i false) || ireads.getD i "" == "identical"
      return Json.mkObj [("model", model), ("agree", true), ("spec_on_impl", ok), ("spec_on_model", true), ("tags", Json.arr #["readback"])]
    let statesOk := idx.all fun i =>
      let s := istates.getD i ""
      if cached.contains i then (if some i == corrupted then s == "absent" else (s == "identical" || !icache)) else s == "absent"
    let readsOk := idx.all fun i =>
      !(cached.contains i) || needsEscape.getD i false || ireads.getD i "" == "identical"
    let agree := icache == cacheOk && (if cacheOk then imeta == labels && ireload == reloadJ else true)
    -- the property on what the implementation did
    let spec := noStray && statesOk &&
      (match corrupted with | some ci => istates.getD ci "" != "different" && istates.getD ci "" != "identical" || !cached.contains ci | none => true) &&
      (if icache then
        strField ireload "res" == "ok" && (optField ireload "versions") == (optField impl "versions") && readsOk &&
        (optField impl "meta_identical") == some (Json.bool true) &&
        (if chain then (List.range v.root.version).all (fun i => imeta.contains (nameLabel (.rootV (i + 1)))) else true)
       else cacheOk == false)
    let tags : List Json := [Json.str (if cacheOk then "cached" else "cache-fails"), Json.str (if (tgtRoleNames v.tgt).isEmpty then "flat" else "delegations")]
    pure (Json.mkObj [("model", model), ("agree", agree), ("spec_on_impl", spec), ("spec_on_model", covered || !cacheOk), ("tags", Json.arr tags.toArray)])

def main : IO Unit := runDriver handle
