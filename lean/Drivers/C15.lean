/- C15 driver: a history of complete cycles, one cycle cut short by a fault, and two follow-up cycles
(replayed older repository, current repository) run from what the interruption left behind. -/
import Tough.Driver.ClientJson
open Lean Tough.Driver Tough.Driver.ClientJson Tough.Client Tough.Sig

def strField (j : Json) (k : String) : String :=
  match optField j k with
  | some (.str s) => s
  | _ => ""

def isOk (j : Json) : Bool := strField j "res" == "ok"

def dsFull (ds : Datastore) : Json :=
  Json.mkObj [("ts", slotJson (·.version) ds.ts), ("snap", slotJson (·.version) ds.snap),
              ("tgt", slotJson (·.version) ds.tgt), ("root", slotJson (·.version) ds.root),
              ("time", match ds.time with | some _ => Json.str "set" | none => Json.null)]

def runOne (c : CycleIn) (ds : Datastore) : Json × St :=
  let (r, st) := cycle c.cfg c.server c.shipped { ds := ds }
  (cycleObs r st, st)

/-- same outcome class and, on success, the same versions -/
def sameOutcome (i m : Json) : Bool :=
  isOk i == isOk m && (if isOk i then optField i "versions" == optField m "versions" else true)

def handle (j : Json) : Except String Json := do
  let input ← j.getObjVal? "input"
  let impl ← j.getObjVal? "impl"
  let cs ← (← getArr input "cycles").mapM parseCycle
  let older ← parseCycle (← input.getObjVal? "older")
  let current ← parseCycle (← input.getObjVal? "current")
  let ibefore ← getArr impl "before"
  match cs.reverse with
  | [] => throw "no cycles"
  | cut :: revBefore =>
    let before := revBefore.reverse
    if before.length != ibefore.length then throw "before-cycle count mismatch"
    -- the cycles that ran to their end
    let mut ds : Datastore := {}
    let mut agree := true
    let mut mbefore : Array Json := #[]
    for (c, io) in before.zip ibefore do
      let (o, st) := runOne c ds
      ds := st.ds
      mbefore := mbefore.push (o.setObjVal! "ds" (dsFull ds))
      if !sameOutcome io o || optField io "ds" != some (dsFull ds) then agree := false
    -- the interrupted cycle: every datastore it can leave behind, in order
    let (_, stCut) := runOne cut ds
    let crashSeq := ds :: stCut.states.reverse
    let after := (optField impl "ds_after").getD Json.null
    let matched := crashSeq.filter fun d => dsFull d == after
    let consider := if matched.isEmpty then crashSeq else matched
    let folls := consider.map fun d => ((runOne older d).1, (runOne current d).1)
    let iolder := (optField impl "older").getD Json.null
    let icurrent := (optField impl "current").getD Json.null
    -- what the property demands of the implementation: the model refuses the replay from every
    -- state the interruption may have left (the theorems say it does unless a root change exempts),
    -- and accepts the current repository
    let demandRefuse := folls.all fun (o, _) => !isOk o
    let demandAccept := folls.all fun (_, c) => isOk c
    let spec := (!demandRefuse || !isOk iolder) && (!demandAccept || isOk icurrent)
    if matched.isEmpty then agree := false
    else if !(folls.any fun (o, c) => sameOutcome iolder o && sameOutcome icurrent c) then agree := false
    let tags : List Json := [Json.str (if matched.isEmpty then "unmatched-state" else "matched"),
      Json.str (if demandRefuse then "replay-must-be-refused" else "replay-exempt")]
    pure (Json.mkObj [
      ("model", Json.mkObj [("before", Json.arr mbefore), ("crash_states", Json.arr (crashSeq.map dsFull).toArray),
        ("followups", Json.arr (folls.map fun (o, c) => Json.mkObj [("older", o), ("current", c)]).toArray)]),
      ("agree", agree), ("spec_on_impl", spec), ("spec_on_model", true), ("tags", Json.arr tags.toArray)])

def main : IO Unit := runDriver handle
