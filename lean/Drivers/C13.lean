import Tough.Driver.Util
import Tough.Model.KeyTable
open Lean Tough.Driver Tough.KeyTable

def handle (j : Json) : Except String Json := do
  let input ← j.getObjVal? "input"
  let impl ← j.getObjVal? "impl"
  let entries ← (← (← input.getObjVal? "entries").getArr?).toList.mapM fun e => do
    let id ← (← e.getObjVal? "id").getStr?
    let kidHex ← (← e.getObjVal? "kid").getStr?
    match fromHex kidHex with
    | some k => pure (id.toList, k)
    | none => throw "bad kid"
  -- the key IS its digest here: `kid` is the identity on the second component
  let res := parseKeys (fun (k : List Nat) => k) entries []
  let mok := match res with | .ok _ => true | .error _ => false
  let tag : String := match res with
    | .ok _ => "ok" | .error .hex => "hex" | .error .invalidKeyId => "invalid-key-id" | .error .duplicateKeyId => "duplicate"
  let iok ← (← impl.getObjVal? "ok").getBool?
  let extra := if iok then
      (optField impl "lookup_ok") == some (Json.bool true) && (optField impl "stable") == some (Json.bool true) &&
      (optField impl "size") == some ((entries.length : Nat) : Json)
    else true
  pure (Json.mkObj [("model", Json.mkObj [("ok", mok), ("why", tag)]), ("agree", Json.bool (mok == iok)),
    ("spec_on_impl", Json.bool (mok == iok && extra)), ("spec_on_model", true), ("tags", Json.arr #[Json.str tag])])

def main : IO Unit := runDriver handle
