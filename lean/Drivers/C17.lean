/- C17 driver: the update path of the editor model on the facts of a loaded repository. -/
import Tough.Driver.Util
import Tough.Model.Editor
open Lean Tough.Driver Tough.Editor

def strField (j : Json) (k : String) : String :=
  match optField j k with
  | some (.str s) => s
  | _ => ""

/-- digests arrive as hex text: interned in order of first appearance -/
def internStr (tbl : List String) (s : String) : List String × Nat :=
  match tbl.idxOf? s with
  | some i => (tbl, i)
  | none => (tbl ++ [s], tbl.length)

def parseEntries (tbl : List String) (j : Json) : Except String (List String × TMap) := do
  let arr ← j.getArr?
  let mut t := tbl
  let mut out : TMap := []
  for e in arr do
    let a ← e.getArr?
    let name ← match a[0]! with
      | .num _ => a[0]!.getNat?
      | _ => throw "target outside the name table"
    let (t', d) := internStr t (← a[2]!.getStr?)
    t := t'
    out := out ++ [(name, { length := ← a[1]!.getNat?, digest := d, custom := ← a[3]!.getNat?, extra := ← a[4]!.getNat? })]
  pure (t, out)

def handle (j : Json) : Except String Json := do
  let input ← j.getObjVal? "input"
  let impl ← j.getObjVal? "impl"
  if (optField impl "load").isSome then
    return Json.mkObj [("model", Json.null), ("agree", true), ("spec_on_impl", true), ("spec_on_model", true), ("tags", Json.arr #["source-refused"])]
  let before ← input.getObjVal? "before"
  let (tbl, entries) ← parseEntries [] (← before.getObjVal? "entries")
  let (tbl, added) ← parseEntries tbl (← input.getObjVal? "added_facts")
  let ex ← before.getObjVal? "extra"
  let vs ← (← before.getObjVal? "versions").getArr?
  let nv ← (← input.getObjVal? "new_versions").getArr?
  let tree := (← before.getObjVal? "tree").compress
  let repo : Repo String := {
    targets := { version := ← vs[3]!.getNat?, expires := 0, targets := entries, deleg := tree, extra := ← (← ex.getObjVal? "targets").getNat? },
    snapshot := { version := ← vs[2]!.getNat?, expires := 0, extra := ← (← ex.getObjVal? "snapshot").getNat? },
    timestamp := { version := ← vs[1]!.getNat?, expires := 0, extra := ← (← ex.getObjVal? "timestamp").getNat? } }
  let u : Update := { targetsVersion := ← nv[0]!.getNat?, targetsExpires := 1, snapshotVersion := ← nv[1]!.getNat?, snapshotExpires := 1,
                      timestampVersion := ← nv[2]!.getNat?, timestampExpires := 1, added := added }
  match update true repo u "" with
  | .error _ => throw "the model's update fails although versions and expirations are set"
  | .ok r' =>
    let upd := strField impl "update"
    let reload := strField impl "reload"
    if upd != "ok" || reload != "ok" then
      -- the model's update always succeeds and its result is a repository like the one loaded
      return Json.mkObj [("model", Json.mkObj [("update", "ok")]), ("agree", false), ("spec_on_impl", false), ("spec_on_model", true),
        ("tags", Json.arr #["update-or-reload-failed"])]
    let after ← impl.getObjVal? "after"
    let (_, aentries) ← parseEntries tbl (← after.getObjVal? "entries")
    let aex ← after.getObjVal? "extra"
    let avs ← (← after.getObjVal? "versions").getArr?
    let names := (entries.map (·.1) ++ added.map (·.1) ++ aentries.map (·.1)).eraseDups
    let entriesOk := names.all fun n => r'.targets.targets.get n == TMap.get aentries n
    let treeOk := (← after.getObjVal? "tree").compress == r'.targets.deleg
    let exT := (← (← aex.getObjVal? "targets").getNat?) == r'.targets.extra
    let exS := (← (← aex.getObjVal? "snapshot").getNat?) == r'.snapshot.extra
    let exTs := (← (← aex.getObjVal? "timestamp").getNat?) == r'.timestamp.extra
    let versOk := (← avs[1]!.getNat?) == r'.timestamp.version && (← avs[2]!.getNat?) == r'.snapshot.version && (← avs[3]!.getNat?) == r'.targets.version
    let all := entriesOk && treeOk && exT && exS && exTs && versOk
    -- the property: nothing dropped or altered; by `update_preserves` this is what the model's result says
    let tags : List Json := [Json.str (if added.isEmpty then "bump" else "add")] ++
      (if !entriesOk then [Json.str "targets-differ"] else []) ++ (if !treeOk then [Json.str "delegations-differ"] else []) ++
      (if !exT then [Json.str "targets-extra-lost"] else []) ++ (if !exS then [Json.str "snapshot-extra-lost"] else []) ++
      (if !exTs then [Json.str "timestamp-extra-lost"] else [])
    pure (Json.mkObj [("model", Json.mkObj [("update", "ok"), ("preserved", true)]), ("agree", all), ("spec_on_impl", all), ("spec_on_model", true),
      ("tags", Json.arr tags.toArray)])

def main : IO Unit := runDriver handle
