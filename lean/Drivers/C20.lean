import Tough.Driver.Util
import Tough.Model.RootCmd
open Lean Tough.Driver Tough.RootCmd

def roleOf (n : Nat) : Role := match n with | 0 => .root | 1 => .snapshot | 2 => .targets | _ => .timestamp

inductive Step where
  | cmd (c : Cmd)
  | signCross (keys : List Nat) (copy : Nat) (ignore : Bool)
  | saveCopy (n : Nat)

def optNat (j : Json) : Option Nat := j.getNat?.toOption

def parseStep (j : Json) : Except String Step := do
  match j with
  | .str "bump_version" => pure (.cmd .bumpVersion)
  | _ =>
    if let some v := optField j "init" then return .cmd (.init (optNat v))
    if let some v := optField j "add_key" then
      return .cmd (.addKey (← getNatArr (← v.getObjVal? "keys")) ((← getNatArr (← v.getObjVal? "roles")).map roleOf))
    if let some v := optField j "remove_key" then
      return .cmd (.removeKey (← (← v.getObjVal? "key").getNat?) ((optNat (← v.getObjVal? "role")).map roleOf))
    if let some v := optField j "set_threshold" then
      return .cmd (.setThreshold (roleOf (← (← v.getObjVal? "role").getNat?)) (← (← v.getObjVal? "n").getNat?))
    if let some v := optField j "set_version" then return .cmd (.setVersion (← v.getNat?))
    if let some v := optField j "expire" then return .cmd (.expire (← v.getNat?))
    if let some v := optField j "save_copy" then return .saveCopy (← v.getNat?)
    if let some v := optField j "sign" then
      let keys ← getNatArr (← v.getObjVal? "keys")
      let ignore ← (← v.getObjVal? "ignore").getBool?
      match optNat (← v.getObjVal? "cross") with
      | some c => return .signCross keys c ignore
      | none => return .cmd (.sign keys none ignore)
    throw "bad command"

def rkJson (rk : RoleKeys) : Json := Json.mkObj [("ids", natArr rk.keyids), ("thr", (rk.threshold : Nat))]

/-- the model's file in the harness vocabulary (signatures as a sorted list of (key, current?)) -/
def fileJson (f : Option RootFile) : Json :=
  match f with
  | none => Json.null
  | some f =>
    let sigs := (f.sigs.map fun s => (s.keyid, decide (s.over = f.content))).toArray.qsort (fun a b => a.1 < b.1 || (a.1 == b.1 && !a.2 && b.2))
    Json.mkObj [
      ("version", (f.content.version : Nat)),
      ("expires", if f.content.expires = 999 then Json.null else (f.content.expires : Nat)),
      ("keys", natArr (f.content.keys.toArray.qsort (· < ·)).toList),
      ("roles", Json.mkObj [("root", rkJson f.content.rootR), ("snapshot", rkJson f.content.snapshotR),
        ("targets", rkJson f.content.targetsR), ("timestamp", rkJson f.content.timestampR)]),
      ("sigs", Json.arr (sigs.map fun (k, c) => Json.mkObj [("k", (k : Nat)), ("current", c)]))]

def proj (j : Json) : Json :=
  match j with
  | .null => .null
  | _ => Json.mkObj [("version", (optField j "version").getD .null), ("expires", (optField j "expires").getD .null),
      ("keys", (optField j "keys").getD .null), ("roles", (optField j "roles").getD .null), ("sigs", (optField j "sigs").getD .null)]

def sortKeys (j : Json) : Json :=
  match optField j "keys" with
  | some (.arr a) => j.setObjVal! "keys" (Json.arr (a.qsort fun x y => (x.getNat?.toOption.getD 0) < (y.getNat?.toOption.getD 0)))
  | _ => j

def handle (j : Json) : Except String Json := do
  let input ← j.getObjVal? "input"
  let impl ← j.getObjVal? "impl"
  let steps ← (← (← input.getObjVal? "cmds").getArr?).toList.mapM parseStep
  let isteps := (← (← impl.getObjVal? "steps").getArr?).toList
  if steps.length != isteps.length then throw "step count mismatch"
  let mut file : Option RootFile := none
  let mut copies : List (Nat × RootFile) := []
  let mut agree := true
  let mut spec := true
  let mut mobs : Array Json := #[]
  for (st, is) in steps.zip isteps do
    let iok ← (← is.getObjVal? "ok").getBool?
    let ifile := (optField is "file").getD Json.null
    -- reported for failed commands only (a successful no-op rewrite may reorder hash-map members)
    let unchanged := optField is "unchanged" == some (Json.bool true)
    let stray ← (← is.getObjVal? "stray_files").getNat?
    let mut mok := true
    match st with
    | .saveCopy n =>
      match file with
      | some f => copies := (n, f) :: copies
      | none => mok := false
    | .signCross keys c ignore =>
      match copies.lookup c with
      | none => mok := false
      | some cf =>
        let (f', ok) := apply file (.sign keys (some cf) ignore)
        file := f'; mok := ok
    | .cmd c =>
      let (f', ok) := apply file (match c with
        | .init v => .init v
        | other => other)
      -- a fresh file gets "now" as its expiry: not one of the fixed times
      file := match c, f' with
        | .init _, some nf => if ok then some { nf with content := { nf.content with expires := 999 } } else f'
        | _, x => x
      mok := ok
    mobs := mobs.push (Json.mkObj [("ok", mok), ("file", fileJson file)])
    if mok != iok || sortKeys (proj ifile) != fileJson file then agree := false
    -- the property on what the binary did
    let parseable := !(optField ifile "unparsable").isSome
    let sigsJ := match optField ifile "sigs" with | some (.arr a) => a.toList | _ => []
    let allCurrent := sigsJ.all fun s => optField s "current" == some (Json.bool true)
    let keyIdsOk := ifile.isNull || optField ifile "key_ids_correct" == some (Json.bool true)
    let isTool := match st with | .saveCopy _ => false | _ => true
    let contentChanging := match st with | .cmd (.sign ..) => false | .signCross .. => false | .saveCopy _ => false | _ => true
    let plainSign := match st with | .cmd (.sign _ none false) => true | _ => false
    if isTool then
      if !iok then
        if !unchanged then spec := false
      else
        if !parseable || ifile.isNull || !keyIdsOk || !allCurrent then spec := false
        if contentChanging && !sigsJ.isEmpty then spec := false
        if plainSign && optField ifile "self_verifies" != some (Json.bool true) then spec := false
      if stray != 0 then spec := false
      if mok != iok then spec := false
  pure (Json.mkObj [("model", Json.mkObj [("steps", Json.arr mobs)]), ("agree", agree), ("spec_on_impl", spec),
    ("spec_on_model", true), ("tags", Json.arr #[])])

def main : IO Unit := runDriver handle
