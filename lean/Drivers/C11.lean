import Tough.Driver.Util
import Tough.Spec.CJson
open Lean Tough.Driver Tough.CJson

/-- value encoding on the wire:
  "n" | {"b":bool} | {"i":"<decimal>"} | "f" | {"s":[cp,…]} | {"a":[v,…]} | {"o":[[[cp,…],v],…]} -/
partial def parseJ (j : Json) : Except String JVal := do
  match j with
  | .str "n" => pure .null
  | .str "f" => pure .float
  | _ =>
    if let some b := optField j "b" then return .bool (← b.getBool?)
    if let some i := optField j "i" then
      let s ← i.getStr?
      match s.toInt? with
      | some n => return .int n
      | none => throw s!"bad int {s}"
    if let some s := optField j "s" then return .str (← getNatArr s)
    if let some a := optField j "a" then
      let xs ← a.getArr?
      let vs ← xs.toList.mapM parseJ
      return .arr (vs.foldr (fun v acc => .cons v acc) .nil)
    if let some o := optField j "o" then
      let ms ← o.getArr?
      let kvs ← ms.toList.mapM fun m => do
        let pr ← m.getArr?
        if pr.size != 2 then throw "member must be a pair"
        let k ← getNatArr pr[0]!
        let v ← parseJ pr[1]!
        pure (k, v)
      return .obj (kvs.foldr (fun kv acc => .cons kv.1 kv.2 acc) .nil)
    throw "bad value"

def mkNfc (table : List (List Nat × List Nat)) (s : Str) : Str :=
  match table.lookup s with
  | some t => t
  | none => s

def showRes : Except Err Bytes → Json
  | .ok b => Json.mkObj [("ok", Json.str (toHex b))]
  | .error .float => Json.mkObj [("err", "float")]
  | .error .noObject => Json.mkObj [("err", "other")]

def handle (j : Json) : Except String Json := do
  let input ← j.getObjVal? "input"
  let v ← parseJ (← input.getObjVal? "v")
  let tbl ← match optField input "nfc" with
    | some t => do
      let rows ← t.getArr?
      rows.toList.mapM fun r => do
        let pr ← r.getArr?
        if pr.size != 2 then throw "nfc row must be a pair"
        pure (← getNatArr pr[0]!, ← getNatArr pr[1]!)
    | none => pure []
  let nfc := mkNfc tbl
  let model := showRes (encode nfc v)
  let spec : Except Err Bytes := match canon nfc v with
    | some b => .ok b
    | none => .error .float
  let specJ := showRes spec
  let impl ← j.getObjVal? "impl"
  let old := showRes (encodeOld nfc v)
  pure (Json.mkObj [
    ("model", model),
    ("spec", specJ),
    ("agree", Json.bool (model == impl)),
    ("spec_on_impl", Json.bool (specJ == impl)),
    ("spec_on_model", Json.bool (specJ == model)),
    ("nontrivial", Json.bool (old != specJ)),
    ("tags", Json.arr #[Json.str (if (hasFloat v) then "float" else "nofloat")])])

def main : IO Unit := runDriver handle
