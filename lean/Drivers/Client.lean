/- Generic driver for the properties decided over the update-cycle model (C02, C03, C04, C05, C09,
C14): folds `cycle` over a history of cycles sharing one datastore. -/
import Tough.Driver.ClientJson
open Lean Tough.Driver Tough.Driver.ClientJson Tough.Client Tough.Sig

/-- the `read_target` calls after a successful load: gate, then lookup -/
def runReads (c : CycleIn) (v : View) (st : St) : List Json × St :=
  c.reads.foldl (fun (acc : List Json × St) rd =>
    let cfg := { c.cfg with now := rd.1 }
    match readGate cfg v acc.2 with
    | (.error e, st') => (acc.1 ++ [Json.str (errTag e)], st')
    | (.ok (), st') =>
      (acc.1 ++ [Json.str (if (Tgt.find rd.2 v.tgt).isSome then "ok" else "notfound")], st')) ([], st)

def runHistory (cs : List CycleIn) (ds0 : Datastore) : List Json × Datastore :=
  cs.foldl (fun (acc : List Json × Datastore) c =>
    let (r, st) := cycle c.cfg c.server c.shipped { ds := acc.2 }
    match r with
    | .ok v =>
      let (rds, st2) := runReads c v st
      (acc.1 ++ [(cycleObs r st).setObjVal! "reads" (Json.arr rds.toArray)], st2.ds)
    | .error _ => (acc.1 ++ [cycleObs r st], st.ds)) ([], ds0)

def strField (j : Json) (k : String) : String :=
  match optField j k with
  | some (.str s) => s
  | _ => ""

def isOk (j : Json) : Bool := strField j "res" == "ok"

def rootReqs (j : Json) : List Json :=
  match optField j "reqs" with
  | some (.arr a) => a.toList.filter fun x => match x with | .str s => s.startsWith "root:" | _ => false
  | _ => []

def reqCount (j : Json) : Nat :=
  match optField j "reqs" with
  | some (.arr a) => a.size
  | _ => 0

def natList (j : Json) (k : String) : List Nat :=
  match optField j k with
  | some (.arr a) => a.toList.filterMap fun x => x.getNat?.toOption
  | _ => []

/-- no request pulled more than the applicable bound plus one transport chunk (<= 4096 bytes) -/
def pulledWithinBounds (i m : Json) : Bool :=
  let p := natList i "pulled"
  let l := natList m "limits"
  p.length == l.length && (p.zip l).all fun (a, b) => a ≤ b + 4096

def errClass (s : String) : String :=
  if s.startsWith "expired" then s else if s == "clock" then s else if s == "ok" then s else "other"

def agreeOne (i m : Json) : Bool :=
  isOk i == isOk m && optField i "versions" == optField m "versions" &&
    optField i "roles" == optField m "roles" && optField i "reqs" == optField m "reqs" &&
    optField i "reads" == optField m "reads"

def specOne (prop : String) (i m : Json) : Bool :=
  match prop with
  | "C02" => isOk i == isOk m && (if isOk i then ((optField i "versions").bind fun v => (v.getArrVal? 0).toOption) ==
               ((optField m "versions").bind fun v => (v.getArrVal? 0).toOption) else true) && rootReqs i == rootReqs m
  | "C04" => isOk i == isOk m && errClass (strField i "res") == errClass (strField m "res") &&
             optField i "reads" == optField m "reads"
  | "C05" => isOk i == isOk m && optField i "reqs" == optField m "reqs"
  | "C09" => isOk i == isOk m && reqCount i == reqCount m && optField i "capped" != some (Json.bool true) &&
             pulledWithinBounds i m
  | _ => isOk i == isOk m && optField i "versions" == optField m "versions"

def handle (j : Json) : Except String Json := do
  let input ← j.getObjVal? "input"
  let impl ← j.getObjVal? "impl"
  let prop ← (← input.getObjVal? "prop").getStr?
  let cs ← (← getArr input "cycles").mapM parseCycle
  let (obs, _) := runHistory cs {}
  let iobs ← getArr impl "cycles"
  if iobs.length != obs.length then throw "cycle count mismatch"
  let pairs := iobs.zip obs
  let agree := pairs.all fun (i, m) => agreeOne i m
  let spec := pairs.all fun (i, m) => specOne prop i m
  let tags := obs.map fun o => Json.str (strField o "res")
  pure (Json.mkObj [
    ("model", Json.mkObj [("cycles", Json.arr obs.toArray)]),
    ("agree", agree), ("spec_on_impl", spec), ("spec_on_model", true),
    ("tags", Json.arr tags.toArray)])

def main : IO Unit := runDriver handle
