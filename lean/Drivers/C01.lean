import Tough.Driver.ClientJson
import Tough.Proofs.SigSpec
open Lean Tough.Driver Tough.Driver.ClientJson Tough.Client Tough.Sig

structure Site where
  table : List Nat
  rk : RoleKeys
  m : Nat
  sigs : List Sig

def parseSite (j : Json) : Except String Site := do
  pure { table := ← getNats j "table", rk := { keyids := ← getNats j "ids", threshold := ← getNat j "thr" },
         m := ← getNat j "m", sigs := ← parseSigs j }

/-- plausible wrong ways of counting; a case is non-trivial when one of them changes the verdict -/
def miscounts (s : Site) : List Bool :=
  let thr := s.rk.threshold
  let ok (x : Sig) := sigOk s.table x s.m
  [ -- every valid signature counts (no set)
    thr ≤ (s.sigs.filter (counts s.table s.rk s.m)).length,
    -- key table not consulted
    thr ≤ ((dedup s.rk.keyids).filter fun k => s.sigs.any fun x => x.keyid == k && x.signer == some k && x.msg == s.m).length,
    -- authorization not consulted
    thr ≤ ((dedup (s.sigs.map (·.keyid))).filter fun k => s.sigs.any fun x => x.keyid == k && ok x).length,
    -- content not compared
    thr ≤ ((dedup s.rk.keyids).filter fun k => s.sigs.any fun x => x.keyid == k && s.table.contains k && x.signer == some k).length,
    -- signature bytes not checked
    thr ≤ ((dedup s.rk.keyids).filter fun k => s.sigs.any fun x => x.keyid == k && s.table.contains k).length,
    -- strict comparison
    thr < (validSigners s.table s.rk s.m s.sigs).length ]

def handle (j : Json) : Except String Json := do
  let input ← j.getObjVal? "input"
  let impl ← j.getObjVal? "impl"
  let site ← parseSite (← input.getObjVal? "site")
  let spec := decide (site.rk.threshold ≤ (validSigners site.table site.rk site.m site.sigs).length)
  let nontrivial := (miscounts site).any (· != spec)
  let kind ← (← input.getObjVal? "kind").getStr?
  if kind == "api" then
    let model := verify site.table site.rk site.m site.sigs
    let implOk ← (← impl.getObjVal? "ok").getBool?
    pure (Json.mkObj [
      ("model", Json.mkObj [("ok", model)]),
      ("agree", Json.bool (model == implOk)),
      ("spec_on_impl", Json.bool (spec == implOk)),
      ("spec_on_model", Json.bool (spec == model)),
      ("nontrivial", nontrivial),
      ("tags", Json.arr #[Json.str (if spec then "accept" else "reject")])])
  else
    let cyc ← parseCycle (← input.getObjVal? "cycle")
    let (r, st) := cycle cyc.cfg cyc.server cyc.shipped { ds := {} }
    let obs := cycleObs r st
    let mres ← (← obs.getObjVal? "res").getStr?
    let ires ← (← impl.getObjVal? "res").getStr?
    let sigErr (t : String) := t.startsWith "verify"
    -- every other document of the case is well-signed and well-formed: the only way to fail is
    -- the signature list under test, so success must coincide with the specification's verdict
    let specOnImpl := if spec then ires == "ok" else sigErr ires
    let specOnModel := if spec then mres == "ok" else sigErr mres
    let agree := (ires == "ok") == (mres == "ok") &&
      (optField impl "versions" == optField obs "versions") && (optField impl "reqs" == optField obs "reqs")
    pure (Json.mkObj [
      ("model", obs),
      ("agree", agree),
      ("spec_on_impl", specOnImpl),
      ("spec_on_model", specOnModel),
      ("nontrivial", nontrivial),
      ("tags", Json.arr #[Json.str mres])])

def main : IO Unit := runDriver handle
