import Tough.Driver.Util
import Tough.Model.Stream
open Lean Tough.Driver Tough.Stream

def parseChunks (js : List Json) (max : Nat) : Except String (List Item) := do
  let mut out : List Item := []
  for j in js do
    match j with
    | .str "err" => out := out ++ [.err .transport]
    | _ =>
      if let some d := optField j "d" then
        match fromHex (← d.getStr?) with
        | some b => out := out ++ [.data b]
        | none => throw "bad hex"
      else if let some d := optField j "endless" then
        match fromHex (← d.getStr?) with
        | some b =>
          -- a finite unrolling long enough to cross any bound (the chunk is non-empty)
          let reps := max / (if b.length = 0 then 1 else b.length) + 2
          out := out ++ List.replicate reps (.data b)
        | none => throw "bad hex"
      else throw "bad chunk"
  pure out

def isPrefix : List Nat → List Nat → Bool
  | [], _ => true
  | _ :: _, [] => false
  | a :: as, b :: bs => a == b && isPrefix as bs

def handle (j : Json) : Except String Json := do
  let input ← j.getObjVal? "input"
  let impl ← j.getObjVal? "impl"
  let istatus ← (← impl.getObjVal? "status").getStr?
  if (optField input "unlisted").isSome then
    let ok := istatus == "notfound"
    return Json.mkObj [("model", Json.mkObj [("status", "notfound")]), ("agree", ok), ("spec_on_impl", ok),
      ("spec_on_model", true), ("tags", Json.arr #["notfound"])]
  let max ← (← input.getObjVal? "max").getNat?
  let expected ← (← input.getObjVal? "expected").getNat?
  let hashAll : Option Nat := (optField input "hash_all").bind fun x => x.getNat?.toOption
  let chunks ← parseChunks (← (← input.getObjVal? "chunks").getArr?).toList max
  let all := content chunks
  -- SHA-256 as far as this case is concerned: the digest identity of the whole transported content
  let H : Bytes → Nat := fun b => if b == all then hashAll.getD (expected + 1) else expected + 1
  let (mdel, mok) := consume (fetchSha256 H max expected chunks)
  let idel ← match fromHex (← (← impl.getObjVal? "delivered").getStr?) with
    | some b => pure b
    | none => throw "bad delivered hex"
  let iok := istatus == "ok"
  -- the property, evaluated on what the implementation did
  let cleanAllowed := noErr chunks && all.length ≤ max && hashAll == some expected
  let spec := idel.length ≤ max && isPrefix idel all && (iok == cleanAllowed) && (!iok || idel == all) &&
    (istatus == "ok" || istatus == "err")
  let specM := mdel.length ≤ max && isPrefix mdel all && (mok == cleanAllowed) && (!mok || mdel == all)
  -- the file that must have been requested
  let name ← (← input.getObjVal? "name").getStr?
  let cs ← (← input.getObjVal? "cs").getBool?
  let hexd ← (← input.getObjVal? "hexdigest").getStr?
  let want := "/t/" ++ (if cs then hexd ++ "." ++ name else name)
  let reqOk := (optField impl "reqs") == some (Json.arr #[Json.str want])
  pure (Json.mkObj [
    ("model", Json.mkObj [("status", if mok then "ok" else "err"), ("delivered", toHex mdel)]),
    ("agree", Json.bool (mok == iok && mdel == idel)),
    ("spec_on_impl", Json.bool (spec && reqOk)),
    ("spec_on_model", Json.bool specM),
    ("tags", Json.arr #[Json.str (if mok then "clean" else "error")])])

def main : IO Unit := runDriver handle
