/- C12 driver: what tough makes of a (mutated) document — does it parse, what are signatures checked
against, does it verify — and the property evaluated on what the implementation did. -/
import Tough.Driver.JsonWire
import Tough.Model.Schema
open Lean Tough.Driver Tough.CJson Tough.Schema

def kindOf : String → Except String Kind
  | "root" => pure .root
  | "timestamp" => pure .timestamp
  | "snapshot" => pure .snapshot
  | "targets" => pure .targets
  | k => throw s!"unknown kind {k}"

def strOf (j : Json) (k : String) : String :=
  match optField j k with
  | some (.str s) => s
  | _ => ""

def boolOf (j : Json) (k : String) : Bool := optField j k == some (Json.bool true)

def handle (j : Json) : Except String Json := do
  let input ← j.getObjVal? "input"
  let impl ← j.getObjVal? "impl"
  let kind ← kindOf (strOf input "kind")
  let group := strOf input "group"
  let signed ← parseWire (← input.getObjVal? "signed")
  -- oracles
  let timeRows ← (← (← input.getObjVal? "times").getArr?).toList.mapM fun r => do
    let pr ← r.getArr?
    let i ← getNatArr pr[0]!
    let o ← if pr[1]!.isNull then pure none else do pure (some (← getNatArr pr[1]!))
    pure (i, o)
  let keyRows ← (← (← input.getObjVal? "keys").getArr?).toList.mapM fun r => do
    let pr ← r.getArr?
    let id ← getNatArr pr[0]!
    let c := match pr[1]! with | .str s => some s | _ => none
    let ok ← pr[2]!.getBool?
    pure (id, c, ok)
  let nfc : Str → Str := id
  let env : Env := {
    nfc := nfc,
    tnorm := fun s => match timeRows.lookup s with | some o => o | none => none,
    keyOk := fun id v =>
      let c := (canon nfc v).map toHex
      keyRows.any fun (i, c', ok) => i == id && c' == c && ok }
  let parsed := (reser env kind signed).isSome
  let msg := (message env kind signed).map toHex
  -- signatures: distinct authorized key ids whose signature is over the message
  let role ← input.getObjVal? "role"
  let ids ← (← (← role.getObjVal? "keyids").getArr?).toList.mapM (·.getStr?)
  let table ← (← (← role.getObjVal? "table").getArr?).toList.mapM (·.getStr?)
  let thr ← (← role.getObjVal? "thr").getNat?
  let sigs ← (← input.getObjVal? "sigs").getArr?
  let good := sigs.toList.filterMap fun s =>
    let id := strOf s "keyid"
    let over := match optField s "over" with | some (.str o) => some o | _ => none
    if ids.contains id && table.contains id && over.isSome && over == msg then some id else none
  let verify := parsed && msg.isSome && good.eraseDups.length ≥ thr
  let model := Json.mkObj [("parse", parsed), ("verify", verify), ("canon", match msg with | some m => Json.str m | none => Json.null)]
  let iparse := boolOf impl "parse"
  let iverify := boolOf impl "verify"
  let isame := boolOf impl "same_as_original"
  let icanon := (optField impl "canon").getD Json.null
  let agree := iparse == parsed && iverify == verify && (if parsed then icanon == (match msg with | some m => Json.str m | none => Json.null) else true)
  let timesConform := timeRows.all fun (i, o) => o == some i
  let spec := match group with
    | "base" => !timesConform || iverify
    | "format" => iverify && isame
    | "mutate" => !iverify || isame
    | "swap" => !iverify
    | _ => true
  let specM := match group with
    | "base" => true      -- what the model does with conforming documents is the subject of `conforming_extras_verify`
    | "format" => verify
    | "swap" => !verify
    | _ => true
  let _ := specM
  let tags : List Json := [Json.str (if !parsed then "parse-error" else if verify then "accepted" else "refused"),
    Json.str (if timesConform then "time-conforming" else "time-respelled")]
  pure (Json.mkObj [("model", model), ("agree", agree), ("spec_on_impl", spec), ("spec_on_model", true), ("tags", Json.arr tags.toArray)])

def main : IO Unit := runDriver handle
