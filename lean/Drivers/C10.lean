/- C10 driver: the editing program of the harness replayed on the decision model (who can sign, which
incoming metadata is accepted), the expected outcome of every step, and what a client must see. -/
import Tough.Driver.Util
import Tough.Model.EditorSign
import Tough.Model.Publish
import Tough.Model.Editor
open Lean Tough.Driver Tough.Sig Tough.EditorSign

def strField (j : Json) (k : String) : String :=
  match optField j k with
  | some (.str s) => s
  | _ => ""

def natsOf (j : Json) (k : String) : List Nat :=
  match optField j k with
  | some (.arr a) => a.toList.filterMap fun x => x.getNat?.toOption
  | _ => []

structure RoleIn where
  name : Nat
  parent : Option Nat
  keys : List Nat
  thr : Nat
  targets : List Nat
  version : Nat
  incoming : String

def parseRole (j : Json) : Except String RoleIn := do
  pure { name := ← (← j.getObjVal? "name").getNat?, parent := (optField j "parent").bind fun x => x.getNat?.toOption,
         keys := natsOf j "keys", thr := ← (← j.getObjVal? "thr").getNat?, targets := natsOf j "targets",
         version := ← (← j.getObjVal? "version").getNat?, incoming := strField j "incoming" }

def delegPool : List Nat := [15, 17, 18, 19]

/-- who signed the holder's metadata, per kind of incoming metadata (mirrors the generator) -/
def signersOf (r : RoleIn) (kind : String) : List Nat :=
  let other := delegPool.filter fun x => !r.keys.contains x
  match kind with
  | "UnderSigned" => if r.thr ≥ 2 then r.keys.take (r.thr - 1) else other.take 1
  | "WrongKeys" => other.take 1
  | _ => r.keys

def insertSorted (n : Nat) : List Nat → List Nat
  | [] => [n]
  | a :: rest => if n ≤ a then n :: a :: rest else a :: insertSorted n rest
def sortNats (l : List Nat) : List Nat := l.foldr insertSorted []

def entriesOf (lengths : List Nat) (digests : List String) (ts : List Nat) : Json :=
  Json.arr ((sortNats ts).map fun (t : Nat) => Json.arr #[Json.num (JsonNumber.fromNat t), ((lengths.getD t 0 : Nat) : Json), Json.str (digests.getD t "")]).toArray

def sortStr (l : List String) : List String :=
  l.foldr (fun s acc => (acc.filter (· < s)) ++ [s] ++ (acc.filter (fun x => !(x < s)))) []

/-- the delegation tree a client must see: accepted roles under their parents, in order -/
def treeOf (roles : List RoleIn) (accepted : List Bool) (curVersion : List Nat) (keyHex : List (Nat × String))
    (lengths : List Nat) (digests : List String) : Nat → Option Nat → Json
  | 0, _ => Json.arr #[]
  | f + 1, parent => Json.arr ((List.range roles.length).filterMap fun ri => match roles[ri]? with
      | some r => if r.parent == parent && accepted.getD ri false then
          some (Json.mkObj [("name", (r.name : Json)), ("keyids", Json.arr ((sortStr (r.keys.filterMap fun k => keyHex.lookup k)).map Json.str).toArray),
            ("thr", (r.thr : Json)), ("version", ((curVersion.getD ri 0 : Nat) : Json)), ("entries", entriesOf lengths digests r.targets),
            ("roles", treeOf roles accepted curVersion keyHex lengths digests f (some ri))])
        else none
      | none => none).toArray

/-- the same shape, of the implementation's facts -/
def implTree : Nat → Json → Json
  | 0, _ => Json.arr #[]
  | f + 1, j => match j with
    | .arr a => Json.arr (a.map fun n => Json.mkObj [("name", (optField n "name").getD Json.null), ("keyids", (optField n "keyids").getD Json.null),
        ("thr", (optField n "thr").getD Json.null), ("version", ((optField n "doc").bind (optField · "version")).getD Json.null),
        ("entries", ((optField n "doc").bind (optField · "entries")).getD Json.null),
        ("roles", implTree f (((optField n "doc").bind (optField · "roles")).getD (Json.arr #[])))])
    | _ => Json.arr #[]

/-! the written directory according to `Tough/Model/Publish.lean` -/
section Written
open Tough.Client Tough.Publish

def toRoles : List (DRole × Tgt) → Roles
  | [] => .nil
  | q :: rest => .cons q.1 q.2 (toRoles rest)

def docOf (version : Nat) : TargetsDoc := ⟨version, 0, [], none, 0, []⟩

/-- the accepted roles under `parent`, in the order they were added, each with its subtree -/
def mkNodes (roles : List RoleIn) (accepted : List Bool) (curVersion : List Nat) : Nat → Option Nat → List (DRole × Tgt)
  | 0, _ => []
  | f + 1, parent => (List.range roles.length).filterMap fun ri => match roles[ri]? with
    | some r => if r.parent == parent && accepted.getD ri false then
        some (⟨r.name, r.keys, r.thr, r.targets⟩, Tgt.mk (docOf (curVersion.getD ri 0)) (toRoles (mkNodes roles accepted curVersion f (some ri))))
      else none
    | none => none

def pre (v : Option Nat) : String := match v with | some n => s!"{n}." | none => ""

def renderFile (stems : List String) : FileName → String
  | .rootV n => s!"{n}.root.json"
  | .timestamp => "timestamp.json"
  | .snapshot v => pre v ++ "snapshot.json"
  | .targets v => pre v ++ "targets.json"
  | .role n v => pre v ++ stems.getD n "?" ++ ".json"

def renderKey (names : List String) : MetaKey → String
  | .targets => "targets.json"
  | .role n => names.getD n "?" ++ ".json"

def sortPairs (l : List (String × Nat)) : List (String × Nat) :=
  l.foldr (fun s acc => (acc.filter (fun x => x.1 < s.1)) ++ [s] ++ (acc.filter (fun x => !(x.1 < s.1)))) []

/-- compare the listing of the written directory with the model's `Signed.server` / `Signed.snapshot` /
`Signed.timestamp`; returns (names and versions agree, every entry describes its file) -/
def writtenAgrees (cs : Bool) (roles : List RoleIn) (accepted : List Bool) (curVersion : List Nat)
    (topV snapV tsV : Nat) (names stems : List String) (listing : Json) : Bool × Bool :=
  let root : Root := ⟨1, 0, cs, [], none, none, none, none, 0, []⟩
  let p : Signed := ⟨root, Tgt.mk (docOf topV) (toRoles (mkNodes roles accepted curVersion 8 none)), snapV, 0, 0, [], tsV, 0, 0, []⟩
  let ser : Ser := ⟨fun _ => 0, fun _ => 0⟩
  let mfiles := sortStr ((p.server ser).map fun x => renderFile stems x.1)
  let mmetas := sortPairs ((p.snapshot ser).metas.map fun x => (renderKey names x.1, x.2.version))
  let pairs : List (String × String) :=
    (renderKey names .targets, renderFile stems (.targets (versioned cs topV))) ::
      (tgtNodes p.tree).map fun q => (renderKey names (nodeMeta ser q).1, renderFile stems (nodeFile ser cs q).1)
  let ifiles : List (String × Json) := match optField listing "files" with | some (.obj o) => o.toList | _ => []
  let imetas : List (String × Json) := match optField listing "snapshot_meta" with | some (.obj o) => o.toList | _ => []
  let itm := (optField listing "timestamp_meta").getD Json.null
  let ver (j : Json) (i : Nat) : Json := match j with | .arr a => a.getD i Json.null | _ => Json.null
  let natOf (j : Json) : Nat := (j.getNat?.toOption).getD 0
  let namesOk := sortStr (ifiles.map (·.1)) == mfiles &&
    sortPairs (imetas.map fun x => (x.1, natOf (ver x.2 0))) == mmetas &&
    natOf (ver itm 0) == snapV &&
    (optField listing "timestamp_meta_keys") == some (Json.arr #["snapshot.json"])
  let describes (m f : Json) : Bool := ver m 0 == ver f 2 && ver m 1 == ver f 0 && ver m 2 == ver f 1 && !(ver m 1).isNull && !(ver m 2).isNull
  let descOk := pairs.all (fun (k, f) => match imetas.lookup k, ifiles.lookup f with
      | some m, some fl => describes m fl
      | _, _ => false) &&
    (match ifiles.lookup (renderFile stems (.snapshot (versioned cs snapV))) with
      | some fl => describes itm fl
      | none => false)
  (namesOk, descOk)
end Written

def handle (j : Json) : Except String Json := do
  let input ← j.getObjVal? "input"
  let impl ← j.getObjVal? "impl"
  let roles ← (← (← input.getObjVal? "roles").getArr?).toList.mapM parseRole
  let tgtKeys := natsOf input "tgt_keys"
  let thrT ← (← input.getObjVal? "thr_t").getNat?
  let ownerShort := optField input "owner_short" == some (Json.bool true)
  let missing : Option Nat := (optField input "missing_field").bind fun x => x.getNat?.toOption
  let versions := natsOf input "versions"
  let top := natsOf input "top_targets"
  let nnames := (natsOf input "lengths").length
  let ownerFull := tgtKeys ++ [13, 14]
  let rootTable := [7, 13, 14] ++ tgtKeys
  let flat := roles.isEmpty
  -- phase A
  let keysA := if ownerShort && flat then ownerFull.drop 1 else ownerFull
  let missingA := flat && missing.isSome
  let tgtSignable := (signRole false rootTable keysA ⟨tgtKeys, thrT⟩ 0).isSome
  -- `build_targets` (version, expiration) runs before the targets role is signed; snapshot and timestamp are built afterwards
  let createRes : String := if flat && missing == some 0 then "missing-field" else if !tgtSignable then "signing-keys-not-found"
    else if missingA then "missing-field" else "ok"
  let mut steps : Array Json := #[Json.mkObj [("op", "create"), ("res", createRes)]]
  let mut accepted : List Bool := roles.map fun _ => false
  let mut curVersion : List Nat := roles.map (·.version)
  let mut finalOk := createRes == "ok"
  let mut topVersion := versions.getD 0 0
  let mut snapVersion := versions.getD 1 0
  let mut tsVersion := versions.getD 2 0
  if createRes == "ok" && !flat then
    topVersion := topVersion + 1; snapVersion := snapVersion + 1; tsVersion := tsVersion + 1
    let mut current : Option Nat := none
    let mut aborted := false
    let mut ri : Nat := 0
    for r in roles do
      if aborted then break
      -- switching to the parent: it is re-signed, with a new version
      if r.parent != current then
        match r.parent with
        | some p =>
          if !(accepted.getD p false) then aborted := true
          else curVersion := curVersion.set p (curVersion.getD p 0 + 10)
        | none => pure ()
        current := r.parent
      if aborted then break
      let m := 1000 + ri
      let sigs := holderSigs m (signersOf r r.incoming)
      let ok := addRoleAccepted true r.keys ⟨r.keys, r.thr⟩ m sigs
      steps := steps.push (Json.mkObj [("op", "add_role"), ("role", (ri : Json)), ("res", if ok then "ok" else "verify-role")])
      accepted := accepted.set ri ok
      if !ok && roles.any (fun x => x.parent == some ri) then aborted := true
      ri := ri + 1
    if !aborted then
      match optField input "update" with
      | some u =>
        if !u.isNull then
          let uri ← (← u.getObjVal? "role").getNat?
          let kind := strField u "kind"
          match roles[uri]? with
          | some r =>
            if accepted.getD uri false then
              let newv := if kind == "Older" then r.version - 1 else r.version + 3
              if newv ≥ 1 then
                let m := 2000 + uri
                let sigs := holderSigs m (signersOf r kind)
                let cur := curVersion.getD uri 0
                let ok := updateAccepted r.keys ⟨r.keys, r.thr⟩ m sigs cur newv
                let res := if ok then "ok" else if !(incomingVerifies r.keys ⟨r.keys, r.thr⟩ m sigs) then "verify-role" else "version"
                steps := steps.push (Json.mkObj [("op", "update_role"), ("role", (uri : Json)), ("res", res)])
                if ok then curVersion := curVersion.set uri newv
          | none => pure ()
      | none => pure ()
    -- `sign`: the accepted roles must not use a name twice
    let acceptedNames := (List.range roles.length).filterMap fun ri => match roles[ri]? with
      | some r => if accepted.getD ri false then some r.name else none
      | none => none
    let distinct := namesDistinct acceptedNames
    steps := steps.push (Json.mkObj [("op", "delegate-and-sign"), ("res", if aborted then "error" else if !distinct then "duplicate-role" else "ok")])
    finalOk := !aborted && distinct
  -- what a client must see
  let rec listedBy (fuel : Nat) (ri : Nat) : Bool :=
    match fuel with
    | 0 => false
    | f + 1 => match roles[ri]? with
      | none => false
      | some r => accepted.getD ri false && (match r.parent with | none => true | some p => listedBy f p)
  -- the edits of the top-level targets (phase B only): 0 = replace by the alternative content, 1 = remove, 2 = add the original
  let edits : List (Nat × Nat) := match optField input "edits" with
    | some (.arr a) => a.toList.filterMap fun e => match e with
      | .arr p => (match p[0]!.getNat?.toOption, p[1]!.getNat?.toOption with | some k, some t => some (k, t) | _, _ => none)
      | _ => none
    | _ => []
  let applied := if createRes == "ok" && !flat then edits else []
  -- the editor model (`Tough/Model/Editor.lean`: existing targets, added targets, merged when built) run on the
  -- edits; digest 1 marks the alternative content.  (name, uses the alternative content)
  let e0 : Tough.Editor.Editor Nat := { existing := some (top.map fun t => (t, (⟨0, 0, 0, 0⟩ : Tough.Editor.Target))) }
  let ops : List Tough.Editor.TOp := applied.map fun (e : Nat × Nat) =>
    if e.1 == 0 then .add e.2 ⟨0, 1, 0, 0⟩ else if e.1 == 1 then .remove e.2 else .add e.2 ⟨0, 0, 0, 0⟩
  let built := Tough.Editor.listed (Tough.Editor.applyOps e0 ops)
  let topState : List (Nat × Bool) := (List.range nnames).filterMap fun t => (built.get t).map fun tg => (t, tg.digest == 1)
  let top := topState.map (·.1)
  let listed : List Nat := (List.range nnames).filter fun t =>
    top.contains t || (List.range roles.length).any fun ri => (roles[ri]?.map (·.targets.contains t)).getD false && listedBy 8 ri
  let model := Json.mkObj [("steps", Json.arr steps), ("final", finalOk),
    ("versions", natArr [1, tsVersion, snapVersion, topVersion]), ("listed", natArr (sortNats listed)),
    ("role_accepted", Json.arr (accepted.map Json.bool).toArray), ("role_version", natArr curVersion)]
  -- the implementation
  let isteps := match optField impl "steps" with | some (.arr a) => a.toList | _ => []
  let stepsAgree := isteps.length == steps.size && (isteps.zip steps.toList).all fun (a, b) =>
    strField a "op" == strField b "op" &&
      (let ra := strField a "res"; let rb := strField b "res"
       if rb == "ok" then ra == "ok" else if rb == "error" then ra != "ok" else ra == rb || (ra.splitOn rb).length > 1)
  let iload := strField impl "load"
  let ifinal := iload != ""
  let ivers := match (optField impl "facts").bind (optField · "versions") with | some v => v | none => Json.null
  let downloads : List String := match optField impl "downloads" with
    | some (Json.arr a) => a.toList.map fun x => (match x with | Json.str s => s | _ => "")
    | _ => []
  let needsEscape := match optField input "needs_escape" with | some (.arr a) => a.toList.map (· == Json.bool true) | _ => []
  let describes := optField impl "describes" == some (Json.arr #[])
  let iaccepted := match optField impl "role_accepted" with | some (.arr a) => a.toList.map (· == Json.bool true) | _ => []
  let irolev := natsOf impl "role_version"
  let downloadsOk := (List.range nnames).all fun t =>
    let d := downloads.getD t ""
    if listed.contains t then (d == "identical" || needsEscape.getD t false) else d == "unlisted"
  -- the loaded tree, node by node, against what was put in
  let lengths0 := natsOf input "lengths"
  let digests0 := match optField input "digests" with | some (.arr a) => a.toList.map fun x => (match x with | Json.str s => s | _ => "") | _ => []
  let altLengths := natsOf input "alt_lengths"
  let altDigests := match optField input "alt_digests" with | some (.arr a) => a.toList.map fun x => (match x with | Json.str s => s | _ => "") | _ => []
  let isAlt (t : Nat) : Bool := topState.contains (t, true)
  let lengths := (List.range lengths0.length).map fun t => if isAlt t then altLengths.getD t 0 else lengths0.getD t 0
  let digests := (List.range digests0.length).map fun t => if isAlt t then altDigests.getD t "" else digests0.getD t ""
  let keyHex : List (Nat × String) := match optField input "key_ids" with
    | some (.arr a) => a.toList.filterMap fun p => match p with
      | .arr q => (match q[0]!.getNat?.toOption, q[1]! with | some i, Json.str h => some (i, h) | _, _ => none)
      | _ => none
    | _ => []
  let entriesJ := entriesOf lengths digests
  let ifacts := (optField impl "facts").getD Json.null
  let treeOk := implTree 6 ((optField ifacts "roles").getD (Json.arr #[])) == treeOf roles accepted curVersion keyHex lengths digests 6 none && (optField ifacts "entries") == some (entriesJ top)
  -- the written directory vs `Tough/Model/Publish.lean`
  let stems := match optField input "role_file_stems" with | some (.arr a) => a.toList.map fun x => (match x with | Json.str s => s | _ => "") | _ => []
  let roleNames := match optField input "role_names" with | some (.arr a) => a.toList.map fun x => (match x with | Json.str s => s | _ => "") | _ => []
  let cs := optField input "cs" == some (Json.bool true)
  let (writtenNames, writtenDesc) := match optField impl "listing" with
    | some l => writtenAgrees cs roles accepted curVersion topVersion snapVersion tsVersion roleNames stems l
    | none => (true, true)
  let agree := stepsAgree && ifinal == finalOk && (!finalOk || (treeOk && writtenNames)) &&
    (if finalOk then iload == "ok" && ivers == natArr [1, tsVersion, snapVersion, topVersion] && iaccepted == accepted && irolev == curVersion && downloadsOk else true)
  -- the property: whatever the editor signed and wrote loads, describes the written files, and every listed target downloads
  -- (what the client sees is what the program put in: the targets of every role with length and digest, the
  -- delegation tree with key ids, thresholds and versions — `treeOf` is the program read as plain assignments)
  -- publication through `copy_target` / `link_target`: every listed target is placed where the client looks for it,
  -- and a file with other content offered under a listed name is refused
  let publishedL : List String := match optField impl "published" with
    | some (Json.arr a) => a.toList.map fun x => (match x with | Json.str s => s | _ => "")
    | _ => []
  let publishedOk := publishedL.all fun s => s == "ok" || s == "unlisted"
  let wrongRefused := match optField impl "wrong_content_refused" with | some (Json.bool b) => b | _ => true
  let spec := if ifinal then iload == "ok" && describes && (writtenDesc || !finalOk) && (treeOk || !finalOk) && publishedOk && wrongRefused && (List.range nnames).all fun t =>
      let d := downloads.getD t ""
      d == "unlisted" || d == "identical" || needsEscape.getD t false
    else true
  if strField input "kind" == "download-escaped-names" then
    let ok := (List.range nnames).all fun t => !(needsEscape.getD t false) || downloads.getD t "" == "unlisted" || downloads.getD t "" == "identical"
    return Json.mkObj [("model", model), ("agree", true), ("spec_on_impl", ok), ("spec_on_model", true), ("tags", Json.arr #["download-escaped"])]
  let tags : List Json := [Json.str (if finalOk then "published" else "refused")]
  pure (Json.mkObj [("model", model), ("agree", agree), ("spec_on_impl", spec), ("spec_on_model", true), ("tags", Json.arr tags.toArray)])

def main : IO Unit := runDriver handle
