import Tough.Driver.Util
import Tough.Model.Save
open Lean Tough.Driver Tough.Stream Tough.Save

def strOfCps (j : Json) : Except String (List Char) := do
  pure ((← getNatArr j).map Char.ofNat)

def cpsJson (s : List Char) : Json := natArr (s.map Char.toNat)

def handleName (input impl : Json) : Except String Json := do
  let raw ← strOfCps (← input.getObjVal? "raw")
  let m := cleanName raw
  let mj : Json := match m with
    | .ok r => Json.mkObj [("ok", cpsJson r)]
    | .error _ => Json.mkObj [("err", "refused")]
  let agree : Bool := match m, optField impl "ok" with
    | .ok r, some j => j == cpsJson r
    | .error _, none => true
    | _, _ => false
  -- the property's demand on names: the resolved form has only safe components
  let safe : Bool := match optField impl "ok" with
    | some j => match strOfCps j with
      | .ok r =>
        let comps := splitSlash (if r.head? = some '/' then r.drop 1 else r)
        r != [] && r != ['/'] && comps.all fun c => c != [] && c != ['.'] && c != ['.', '.']
      | .error _ => false
    | none => true
  pure (Json.mkObj [("model", mj), ("agree", agree), ("spec_on_impl", agree && safe), ("spec_on_model", true),
    ("tags", Json.arr #[Json.str (match m with | .ok _ => "resolved" | .error .dotDot => "dotdot" | .error .empty => "empty" | .error .slash => "slash")])])

def parseChunks (js : List Json) : Except String (List Item) := do
  js.mapM fun j => match j with
    | .str "err" => pure (.err .transport)
    | _ => do
      match fromHex (← (← j.getObjVal? "d").getStr?) with
      | some b => pure (.data b)
      | none => throw "bad hex"

def pathStr (p : Path) : String := String.ofList (joinSlash p)

def entries (j : Json) : Except String (List (String × String)) := do
  (← j.getArr?).toList.mapM fun e => do
    let pr ← e.getArr?
    pure (← pr[0]!.getStr?, ← pr[1]!.getStr?)

def baseName (p : String) : String := (p.splitOn "/").getLast!
def dirName (p : String) : String := "/".intercalate ((p.splitOn "/").dropLast)

def handleSave (input impl : Json) : Except String Json := do
  let raw ← strOfCps (← input.getObjVal? "raw")
  let resolved ← match cleanName raw with
    | .ok r => pure r
    | .error _ => throw "save case with a refused name"
  let prefixDigest ← (← input.getObjVal? "prefix_digest").getBool?
  let hexd ← (← input.getObjVal? "hexdigest").getStr?
  let pre ← (← input.getObjVal? "preexisting").getBool?
  let max ← (← input.getObjVal? "max").getNat?
  let contentB ← match fromHex (← (← input.getObjVal? "content").getStr?) with
    | some b => pure b | none => throw "bad content"
  let chunks ← parseChunks (← (← input.getObjVal? "chunks").getArr?).toList
  let fileName : List Char := if prefixDigest then hexd.toList ++ '.' :: resolved else resolved
  let absolute := fileName.head? = some '/'
  let comps := (splitSlash fileName).filter (· ≠ [])
  let outdir : Path := ["a".toList, "b".toList, "out".toList]
  let dst := joinPath outdir absolute comps
  let H : Bytes → Nat := fun b => if b == contentB then 1 else 0
  let items := fetchSha256 H max 1 chunks
  let (res, ops) := saveTrace outdir dst ['.', 't', 'm', 'p'] items
  let mok := match res with | .ok _ => true | .error _ => false
  let dstS := pathStr dst
  -- implementation side
  let ires ← (← impl.getObjVal? "res").getStr?
  let iok := ires == "ok"
  let before ← entries (← impl.getObjVal? "before")
  let after ← entries (← impl.getObjVal? "after")
  let snaps ← (← (← impl.getObjVal? "snapshots").getArr?).toList.mapM entries
  let escaped ← (← impl.getObjVal? "escaped").getBool?
  let isTemp (p : String) := (baseName p).startsWith ".tmp" && dirName p == dirName dstS
  -- what may be seen at any moment: the files that were there before (unchanged), the destination
  -- either as before or complete, and a temporary file next to the destination
  let okView (final : Bool) (v : List (String × String)) : Bool :=
    (before.all fun (p, c) => p == dstS || v.contains (p, c)) &&
    (v.all fun (p, c) =>
      if p == dstS then c == "new" || (before.contains (p, c))
      else before.contains (p, c) || (!final && isTemp p && p.startsWith "a/b/out/"))
  let dstOk (v : List (String × String)) : Bool :=
    match v.lookup dstS with
    | some c => c == "new" || (pre && c == "old")
    | none => !pre
  let spec : Bool := !escaped && snaps.all (fun v => okView false v && dstOk v) && okView true after && dstOk after &&
    (iok == mok) && (if iok then after.lookup dstS == some "new" else after == before)
  let agree : Bool := iok == mok && (if mok then after.lookup dstS == some "new" else after == before)
  pure (Json.mkObj [
    ("model", Json.mkObj [("res", if mok then "ok" else "err"), ("dst", dstS), ("ops", (ops.length : Nat))]),
    ("agree", agree), ("spec_on_impl", spec), ("spec_on_model", true),
    ("tags", Json.arr #[Json.str (match res with | .ok _ => "saved" | .error .noParent => "no-parent" | .error .unsafePath => "unsafe-path" | .error .transfer => "transfer-failed")])])

def handle (j : Json) : Except String Json := do
  let input ← j.getObjVal? "input"
  let impl ← j.getObjVal? "impl"
  let kind ← (← input.getObjVal? "kind").getStr?
  if kind == "name" then handleName input impl else handleSave input impl

def main : IO Unit := runDriver handle
